#!/usr/bin/env python3
"""Driver for the dig verification harness (DESIGN.md §1.5).

  check <PROPERTY> [--tier quick|thorough] [--replay FILE] [--seed N]

Exit 0: property held on everything explored.
Exit 1: a line "VIOLATION property=<id> replay=<path>" was printed.
Exit 2: inconclusive (build failure, timeout, worker death without a case).
"""
import argparse, glob, json, os, shutil, subprocess, sys, time, hashlib

ROOT = os.path.dirname(os.path.abspath(__file__))  # /verif
HARNESS = os.path.join(ROOT, "harness")
BUILD = os.path.join(ROOT, ".build")
REPLAYS = os.path.join(ROOT, "replays")
EVIDENCE = os.path.join(ROOT, "evidence")
KNOWN = os.path.join(ROOT, "known_findings.json")
FOUND = REPLAYS  # where newly found failing cases are written

GOENV = dict(os.environ, GOFLAGS="-mod=mod", GOPROXY="off", GOSUMDB="off", GOTOOLCHAIN="local",
             CGO_ENABLED="0")

# per property: (test, quick (shards, checks), thorough (shards, checks))
PLAN = {
    # property: quick (shards, total cases), thorough (shards, total cases)
    "C01": dict(q=(8, 96000), t=(16, 1600000)),
    "C02": dict(q=(8, 96000), t=(16, 1600000)),
    "C03": dict(q=(8, 96000), t=(16, 1600000)),
    "C04": dict(q=(8, 96000), t=(16, 1600000)),
    "C05": dict(q=(8, 64000), t=(16, 1000000)),
    "C06": dict(q=(8, 48000), t=(16, 800000)),
    "C07": dict(q=(8, 96000), t=(16, 1600000)),
    "C08": dict(q=(8, 96000), t=(16, 1600000)),
    "C09": dict(q=(8, 96000), t=(16, 1600000)),
    "C10": dict(q=(8, 96000), t=(16, 1600000)),
    "C11": dict(q=(8, 96000), t=(16, 1600000)),
    "C12": dict(q=(8, 96000), t=(16, 1600000)),
    "C13": dict(q=(8, 96000), t=(16, 1600000)),
    "C14": dict(q=(8, 48000), t=(16, 800000)),
    "C15": dict(q=(8, 48000), t=(16, 800000)),
    "C16": dict(q=(8, 48000), t=(16, 800000)),
    "C17": dict(q=(8, 64000), t=(16, 1000000)),
    "C18": dict(q=(8, 48000), t=(16, 800000)),
    "C19": dict(q=(8, 24000), t=(16, 480000)),
    "C20": dict(q=(8, 24000), t=(16, 480000)),
}

# native go test -fuzz stage (seconds) of the thorough tier
NATIVE_FUZZ = {f"C{i:02d}": 60 for i in range(1, 21)}
NATIVE_FUZZ.update({"C14": 120, "C05": 90})

MASK = (1 << 64) - 1


def splitmix(x):
    x = (x + 0x9E3779B97F4A7C15) & MASK
    z = x
    z = ((z ^ (z >> 30)) * 0xBF58476D1CE4E5B9) & MASK
    z = ((z ^ (z >> 27)) * 0x94D049BB133111EB) & MASK
    z = z ^ (z >> 31)
    return z or 1


def repo_tree():
    try:
        head = subprocess.run(["git", "-C", "/repo", "rev-parse", "HEAD"], capture_output=True, text=True).stdout.strip()
        diff = subprocess.run(["git", "-C", "/repo", "diff", "HEAD"], capture_output=True).stdout
        return head + ("+dirty:" + hashlib.sha1(diff).hexdigest()[:12] if diff else "")
    except Exception:
        return "unknown"


def build(tag):
    global HARNESS, EVIDENCE, FOUND
    os.makedirs(BUILD, exist_ok=True)
    out = os.path.join(BUILD, f"harness.{tag}.test")
    keep = os.environ.get("VERIF_KEEP_BINARY")
    if keep:
        # development aid (seed matrix): build once, reuse for many checks
        out = keep
        alt = os.environ.get("VERIF_REPO")
        if alt and os.path.abspath(alt) != "/repo":
            outdir = os.environ.get("VERIF_OUT") or os.path.join(BUILD, f"alt-out.{tag}")
            EVIDENCE = os.path.join(outdir, "evidence")
            FOUND = os.path.join(outdir, "replays")
        if os.path.exists(keep):
            return keep
    alt = os.environ.get("VERIF_REPO")
    if alt and os.path.abspath(alt) != "/repo":
        # development aid: run the harness against another checkout of dig
        # (scratch worktree); registered checks always use /repo
        h2 = os.path.join(BUILD, f"harness-src.{tag}")
        shutil.rmtree(h2, ignore_errors=True)
        shutil.copytree(HARNESS, h2)
        gm = open(os.path.join(h2, "go.mod")).read().replace("=> /repo", "=> " + os.path.abspath(alt))
        open(os.path.join(h2, "go.mod"), "w").write(gm)
        HARNESS = h2
        # results of runs against another checkout never touch the
        # registered evidence / replay directories
        outdir = os.environ.get("VERIF_OUT") or os.path.join(BUILD, f"alt-out.{tag}")
        EVIDENCE = os.path.join(outdir, "evidence")
        FOUND = os.path.join(outdir, "replays")
    # the harness module needs dig's sums next to its own
    cmd = ["go", "test", "-c", "-tags", "verif", "-o", out, "."]
    p = subprocess.run(cmd, cwd=HARNESS, env=GOENV, capture_output=True, text=True)
    if p.returncode != 0:
        print("BUILD FAILED (inconclusive):\n" + p.stdout + p.stderr)
        sys.exit(2)
    return out


def load_known():
    if not os.path.exists(KNOWN):
        return []
    return json.load(open(KNOWN)).get("findings", [])


def run_replay(binary, prop, path, timeout=120, strict=False):
    env = dict(GOENV, VERIF_REPLAY=os.path.abspath(path), VERIF_PROP=prop)
    if strict:
        env["VERIF_STRICT_KF"] = "1"
    try:
        p = subprocess.run([binary, "-test.run", "^TestReplay$", "-test.timeout", f"{timeout}s"],
                           cwd=HARNESS, env=env, capture_output=True, text=True, timeout=timeout + 30)
    except subprocess.TimeoutExpired:
        return "timeout", ""
    out = p.stdout + p.stderr
    if "REPLAY-OK" in out and p.returncode == 0:
        return "ok", out
    if "REPLAY-LOAD-ERROR" in out:
        return "timeout", out  # unreadable replay file: inconclusive, not a violation
    if "REPLAY-FAIL" in out:
        return "fail", out
    # died without verdict: fatal crash (stack overflow) counts as a failure of the replayed case
    if "fatal error" in out or "stack overflow" in out or p.returncode != 0:
        return "crash", out
    return "ok", out


def main():
    ap = argparse.ArgumentParser()
    ap.add_argument("prop")
    ap.add_argument("--tier", default=os.environ.get("VERIF_TIER", "quick"))
    ap.add_argument("--replay")
    ap.add_argument("--seed", type=int, default=None)
    ap.add_argument("--shards", type=int)
    ap.add_argument("--checks", type=int)
    args = ap.parse_args()
    prop = args.prop
    tier = args.tier if args.tier in ("quick", "thorough") else "quick"
    seed = args.seed if args.seed is not None else int(os.environ.get("VERIF_SEED", "1") or "1")
    if prop not in PLAN:
        print(f"unknown property {prop}")
        sys.exit(2)
    t0 = time.time()
    binary = build(f"{prop}.{os.getpid()}")
    try:
        rc = run(prop, tier, seed, args, binary, t0)
    finally:
        try:
            if not os.environ.get("VERIF_KEEP_BINARY"):
                os.remove(binary)
        except OSError:
            pass
        if HARNESS.startswith(BUILD):
            shutil.rmtree(HARNESS, ignore_errors=True)
    sys.exit(rc)


def run(prop, tier, seed, args, binary, t0):
    if args.replay:
        ledger = {os.path.abspath(os.path.join(ROOT, k["repro"])) for k in load_known()}
        st, out = run_replay(binary, prop, args.replay, strict=os.path.abspath(args.replay) in ledger)
        if st in ("fail", "crash"):
            print(out[-3000:])
            print(f"VIOLATION property={prop} replay={os.path.abspath(args.replay)}")
            return 1
        if st == "timeout":
            print("replay timed out (inconclusive)")
            return 2
        print(f"replay ok: {args.replay}")
        return 0

    violations = []  # (replay path, message)
    known_lines = []
    # 1. regression tier: known findings and saved replays
    known = [k for k in load_known() if prop in k.get("properties", [])]
    known_repros = set()
    for k in known:
        path = os.path.join(ROOT, k["repro"])
        known_repros.add(os.path.abspath(path))
        # repro files of ledger entries are replayed without the exclusion of
        # known-finding patterns, so that they show whether the defect is there
        st, out = run_replay(binary, prop, path, strict=True)
        if k.get("status") == "known":
            if st in ("fail", "crash"):
                known_lines.append(f"KNOWN-FINDING: property={prop} {k['id']}: {k['description']}")
            # a known finding that no longer fails is simply not reported
        else:  # fixed: ordinary regression replay
            if st in ("fail", "crash"):
                violations.append((path, f"regression of fixed finding {k['id']}: " + out[-1500:]))
            elif st == "timeout":
                print(f"replay {path} timed out (inconclusive)")
                return 2
    replay_count = len(known)
    for path in sorted(glob.glob(os.path.join(REPLAYS, f"{prop}-*.json"))):
        if os.path.abspath(path) in known_repros:
            continue
        st, out = run_replay(binary, prop, path)
        replay_count += 1
        if st in ("fail", "crash"):
            violations.append((path, out[-1500:]))
        elif st == "timeout":
            print(f"replay {path} timed out (inconclusive)")
            return 2

    # 2. generated search
    plan = PLAN[prop]["q" if tier == "quick" else "t"]
    shards = args.shards or plan[0]
    checks = args.checks or plan[1]
    per = max(1, checks // shards)
    rundir = os.path.join(BUILD, f"run.{prop}.{os.getpid()}")
    shutil.rmtree(rundir, ignore_errors=True)
    os.makedirs(rundir)
    procs = []
    timeout = 900 if tier == "quick" else 7200
    for k in range(shards):
        sseed = splitmix((seed << 8) ^ k ^ (hash_prop(prop) << 32))
        env = dict(GOENV, VERIF_PROP=prop, VERIF_TIER=tier,
                   VERIF_STATS=os.path.join(rundir, f"stats.{k}.json"),
                   VERIF_FAILOUT=os.path.join(rundir, f"fail.{k}.json"),
                   VERIF_INFLIGHT=os.path.join(rundir, f"inflight.{k}.json"),
                   VERIF_SHARD=str(k), VERIF_SHARDS=str(shards), VERIF_SEED=str(seed),
                   TMPDIR=rundir)
        cmd = [binary, "-test.run", "^TestProp$", f"-rapid.checks={per}", f"-rapid.seed={sseed}",
               "-rapid.nofailfile", "-rapid.shrinktime=20s", f"-test.timeout={timeout}s"]
        logf = open(os.path.join(rundir, f"log.{k}.txt"), "w")
        procs.append((k, sseed, subprocess.Popen(cmd, cwd=HARNESS, env=env, stdout=logf, stderr=subprocess.STDOUT), logf))
    inconclusive = False
    deadline = time.time() + timeout + 60
    for k, sseed, p, logf in procs:
        try:
            p.wait(timeout=max(1, deadline - time.time()))
        except subprocess.TimeoutExpired:
            p.kill()
            inconclusive = True
            print(f"shard {k} timed out (inconclusive)")
        logf.close()
    merged = dict(evaluations=0, hashes=set(), classes={}, counters={}, samples=[])
    seeds = []
    for k, sseed, p, _ in procs:
        seeds.append(sseed)
        log = open(os.path.join(rundir, f"log.{k}.txt")).read()
        statp = os.path.join(rundir, f"stats.{k}.json")
        failp = os.path.join(rundir, f"fail.{k}.json")
        if os.path.exists(statp):
            st = json.load(open(statp))
            merged["evaluations"] += st["evaluations"]
            merged["hashes"].update(st.get("nontrivial_hashes") or [])
            for a, b in (st.get("classes") or {}).items():
                merged["classes"][a] = merged["classes"].get(a, 0) + b
            for a, b in (st.get("counters") or {}).items():
                merged["counters"][a] = merged["counters"].get(a, 0) + b
            for s in (st.get("samples") or [])[:2]:
                if len(merged["samples"]) < 5:
                    merged["samples"].append(s)
        if p.returncode == 0:
            continue
        if os.path.exists(failp):
            os.makedirs(FOUND, exist_ok=True)
            dest = os.path.join(FOUND, f"found-{prop}-seed{seed}-shard{k}.json")
            shutil.copy(failp, dest)
            note = json.load(open(failp)).get("note", "")
            violations.append((dest, note + "\n" + tail_of(log)))
        elif p.returncode is not None and ("fatal error" in log or "stack overflow" in log or "signal" in log):
            inf = os.path.join(rundir, f"inflight.{k}.json")
            if os.path.exists(inf):
                os.makedirs(FOUND, exist_ok=True)
                dest = os.path.join(FOUND, f"found-{prop}-seed{seed}-shard{k}-crash.json")
                c = json.load(open(inf))
                c["prop"] = prop
                c["note"] = "worker process died (fatal error) while executing this case"
                json.dump(c, open(dest, "w"), indent=1)
                violations.append((dest, "worker died: " + tail_of(log)))
            else:
                inconclusive = True
                print(f"shard {k} died without an in-flight case (inconclusive):\n{tail_of(log)}")
        elif "panic: test timed out" in log or p.returncode is None:
            inconclusive = True
            print(f"shard {k} timed out (inconclusive)")
        else:
            inconclusive = True
            print(f"shard {k} failed without a saved case (inconclusive):\n{tail_of(log)}")

    # 3. native coverage-guided fuzzing of the same generator+oracle
    #    (thorough tier of C14 and C05; cannot be pinned to a seed, so never in quick)
    if tier == "thorough" and prop in NATIVE_FUZZ and not violations and not os.environ.get("VERIF_NO_NATIVE_FUZZ"):
        secs = NATIVE_FUZZ[prop]
        failp = os.path.join(rundir, "fuzzfail.json")
        env = dict(GOENV, VERIF_FAILOUT=failp, VERIF_PROP=prop)
        cachedir = os.path.join(rundir, "fuzzcache")
        cmd = ["go", "test", "-tags", "verif", "-run", "^$", "-fuzz", f"^Fuzz{prop}$", f"-fuzztime={secs}s",
               f"-test.fuzzcachedir={cachedir}", "."]
        try:
            fp = subprocess.run(cmd, cwd=HARNESS, env=env, capture_output=True, text=True, timeout=secs + 600)
            fout = fp.stdout + fp.stderr
            execs = 0
            for line in fout.splitlines():
                if "execs:" in line:
                    try:
                        execs = max(execs, int(line.split("execs:")[1].split()[0]))
                    except Exception:
                        pass
            merged["counters"]["native_fuzz_execs"] = execs
            merged["counters"]["native_fuzz_seconds"] = secs
            merged["evaluations"] += execs
            if fp.returncode != 0:
                if os.path.exists(failp):
                    os.makedirs(FOUND, exist_ok=True)
                    dest = os.path.join(FOUND, f"found-{prop}-nativefuzz.json")
                    shutil.copy(failp, dest)
                    violations.append((dest, "native fuzzing: " + fout[-1500:]))
                else:
                    inconclusive = True
                    print("native fuzzing failed without a saved case (inconclusive):\n" + fout[-1500:])
        except subprocess.TimeoutExpired:
            inconclusive = True
            print("native fuzzing timed out (inconclusive)")
        finally:
            shutil.rmtree(os.path.join(HARNESS, "testdata"), ignore_errors=True)

    wall = time.time() - t0
    meta = prop_meta(binary, prop)
    ev = {
        "property_id": prop,
        "tier": tier,
        "seed": seed,
        "level": "exploration",
        "wall_s": round(wall, 2),
        "violations": len(violations),
        "coverage": {
            "evaluations": merged["evaluations"],
            "distinct_nontrivial": len(merged["hashes"]),
            "rule": meta.get("rule", ""),
            "samples": merged["samples"],
            "classes": dict(sorted(merged["classes"].items())),
            "counters": dict(sorted(merged["counters"].items())),
            "shards": shards,
            "cases_per_shard": per,
            "shard_seeds": seeds,
            "replays_run": replay_count,
            "known_findings_reported": len(known_lines),
            "repo_tree": repo_tree(),
            "exhaustive": False,
        },
        "assumptions": meta.get("assumptions") or [],
    }
    if any(k.startswith("exhaustive_") for k in merged["counters"]):
        ev["coverage"]["exhaustive_part"] = "see counters: exhaustive_* entries were enumerated completely"
    os.makedirs(EVIDENCE, exist_ok=True)
    with open(os.path.join(EVIDENCE, f"{prop}.json"), "w") as f:
        json.dump(ev, f, indent=1)
    for line in known_lines:
        print(line)
    print(f"{prop} [{tier}] seed={seed}: evaluations={merged['evaluations']} distinct_nontrivial={len(merged['hashes'])} "
          f"replays={replay_count} wall={wall:.1f}s")
    if violations:
        for path, msg in violations:
            print(msg[-2500:])
        for path, msg in violations:
            print(f"VIOLATION property={prop} replay={path}")
        shutil.rmtree(rundir, ignore_errors=True)
        return 1
    shutil.rmtree(rundir, ignore_errors=True)
    if inconclusive:
        return 2
    return 0


def hash_prop(p):
    return int(hashlib.sha1(p.encode()).hexdigest()[:8], 16)


def tail_of(log, n=1800):
    # cut rapid's draw log
    i = log.find("Failed test output:")
    if i > 0:
        log = log[:i]
    return log[-n:]


def prop_meta(binary, prop):
    env = dict(GOENV, VERIF_PROP=prop, VERIF_META="1")
    try:
        p = subprocess.run([binary, "-test.run", "^TestMeta$"], cwd=HARNESS, env=env, capture_output=True, text=True, timeout=60)
        for line in p.stdout.splitlines():
            if line.startswith("META "):
                return json.loads(line[5:])
    except Exception:
        pass
    return {}


if __name__ == "__main__":
    try:
        main()
    except SystemExit:
        raise
    except BaseException as e:  # driver bug, interrupted, out of memory ...
        import traceback
        traceback.print_exc()
        print("driver error (inconclusive):", e)
        sys.exit(2)

package harness

import (
	"fmt"

	"pgregory.net/rapid"
)

// ---------------------------------------------------------------------------
// Generator of histories over the declared function bank (distinct code
// pointers): used where dig's observable output depends on the function's
// identity — constructor IDs (C18), DOT clusters (C19), callback names (C20).
// ---------------------------------------------------------------------------

type BankKnobs struct {
	MinOps, MaxOps, MaxScopes, MaxDepth                       int
	WScope, WProvide, WDecorate, WInvoke, WVisualize, WString int

	PAvail    int // pick an entry whose required parameters are all available
	PExport   int
	PCallback int
	PInfo     int
	PFault    int
	PPanic    int
	PRepeat   int // allow a second instance of an already used entry (same code pointer)
	PDefer    int
	PRecover  int
	PDur      int  // function advances the mock clock
	VisErr    bool // Visualize ops carry the error of the last failed Invoke
	PVisErr   int
}

func DefaultBankKnobs() BankKnobs {
	return BankKnobs{
		MinOps: 3, MaxOps: 18, MaxScopes: 4, MaxDepth: 3,
		WScope: 2, WProvide: 10, WDecorate: 2, WInvoke: 6,
		PAvail: 85, PExport: 15, PDefer: 10, PRecover: 50,
	}
}

type bankGen struct {
	*gen
	bk      BankKnobs
	used    map[int]int
	lastErr int
}

func (g *bankGen) entryAvail(i int, s int, kind int) bool {
	mf := NewMFn(BankFn(i, -1), nil, kind, s)
	ok, _ := g.m.Available(mf)
	return ok
}

// pickEntry selects a bank entry of the wanted kind.
func (g *bankGen) pickEntry(kind string, s int, lbl string) (int, bool) {
	var all, good []int
	mk := KCtor
	if kind == "deco" {
		mk = KDeco
	} else if kind == "invoke" {
		mk = KInvoke
	}
	for i, sp := range BankSpecs {
		if sp.Kind != kind {
			continue
		}
		if g.used[i] > 0 && !(kind == "invoke") {
			continue
		}
		all = append(all, i)
		if g.entryAvail(i, s, mk) {
			good = append(good, i)
		}
	}
	if g.pct(g.bk.PRepeat, lbl+"rep") {
		var usedL []int
		for i, sp := range BankSpecs {
			if sp.Kind == kind && g.used[i] > 0 {
				usedL = append(usedL, i)
			}
		}
		if len(usedL) > 0 {
			return usedL[g.pick(len(usedL), lbl+"ru")], true
		}
	}
	if len(good) > 0 && g.pct(g.bk.PAvail, lbl+"av") {
		return good[g.pick(len(good), lbl+"g")], true
	}
	if len(all) == 0 {
		return 0, false
	}
	return all[g.pick(len(all), lbl+"a")], true
}

func (g *bankGen) decorate(f *Fn) {
	if g.pct(g.bk.PFault, "fault?") {
		n := 1 + g.pick(2, "nf")
		for i := 0; i < n; i++ {
			if g.pct(g.bk.PPanic, "panic?") {
				f.Faults = append(f.Faults, FaultPanic)
			} else if f.Err {
				f.Faults = append(f.Faults, FaultError)
			} else {
				f.Faults = append(f.Faults, FaultOK)
			}
		}
	}
	if g.pct(g.bk.PDur, "dur?") {
		f.Dur = 1 + g.pick(1000, "dur")
	}
}

func GenBankCase(t *rapid.T, bk BankKnobs) *Case {
	base := &gen{t: t, k: DefaultKnobs(), m: NewModel(), c: &Case{}, nscope: 1}
	g := &bankGen{gen: base, bk: bk, used: map[int]int{}, lastErr: -1}
	g.c.Cfg.Defer = g.pct(bk.PDefer, "defer")
	g.c.Cfg.Recover = g.pct(bk.PRecover, "recover")
	nops := rapid.IntRange(bk.MinOps, bk.MaxOps).Draw(t, "nops")
	total := bk.WScope + bk.WProvide + bk.WDecorate + bk.WInvoke + bk.WVisualize + bk.WString
	for len(g.c.Ops) < nops {
		r := g.pick(total, "op")
		s := g.pick(g.nscope, "s")
		switch {
		case r < bk.WScope:
			if g.nscope >= bk.MaxScopes {
				continue
			}
			parent := s
			if g.m.Depth(parent) >= bk.MaxDepth {
				parent = 0
			}
			name := fmt.Sprintf("s%d", g.nscope)
			g.m.AddScope(parent, name)
			g.nscope++
			g.c.Ops = append(g.c.Ops, Op{K: OpScope, S: parent, Name: name})
		case r < bk.WScope+bk.WProvide:
			i, ok := g.pickEntry("ctor", s, "pe")
			if !ok {
				continue
			}
			g.used[i]++
			f := BankFn(i, g.nextID+1)
			g.nextID++
			g.decorate(f)
			o := &Opts{}
			if s != 0 && g.pct(bk.PExport, "exp") {
				o.Export = true
			}
			o.CB = g.pct(bk.PCallback, "cb")
			o.Info = g.pct(bk.PInfo, "info")
			op := Op{K: OpProvide, S: s, F: f}
			if o.Export || o.CB || o.Info {
				op.O = o
			}
			mf := NewMFn(f, op.O, KCtor, s)
			if g.m.DupProvide(mf) == "" && !g.m.DigCycle(mf) {
				g.m.AddCtor(mf)
			}
			g.c.Ops = append(g.c.Ops, op)
		case r < bk.WScope+bk.WProvide+bk.WDecorate:
			i, ok := g.pickEntry("deco", s, "de")
			if !ok {
				continue
			}
			g.used[i]++
			f := BankFn(i, g.nextID+1)
			g.nextID++
			g.decorate(f)
			op := Op{K: OpDecorate, S: s, F: f}
			o := &Opts{CB: g.pct(bk.PCallback, "cb"), Info: g.pct(bk.PInfo, "info")}
			if o.CB || o.Info {
				op.O = o
			}
			mf := NewMFn(f, nil, KDeco, s)
			if g.m.DupDecorate(mf) == "" {
				g.m.AddDeco(mf)
				if g.anyDecoCycle() {
					g.removeDeco(mf)
					g.used[i]--
					continue
				}
			}
			g.c.Ops = append(g.c.Ops, op)
		case r < bk.WScope+bk.WProvide+bk.WDecorate+bk.WInvoke:
			i, ok := g.pickEntry("invoke", s, "ie")
			if !ok {
				continue
			}
			g.used[i]++
			f := BankFn(i, g.nextID+1)
			g.nextID++
			g.decorate(f)
			op := Op{K: OpInvoke, S: s, F: f}
			if g.pct(bk.PInfo, "info") {
				op.O = &Opts{Info: true}
			}
			g.c.Ops = append(g.c.Ops, op)
			g.lastErr = len(g.c.Ops) - 1
		case r < bk.WScope+bk.WProvide+bk.WDecorate+bk.WInvoke+bk.WVisualize:
			op := Op{K: OpVisualize}
			if g.lastErr >= 0 && g.pct(bk.PVisErr, "viserr") {
				e := g.lastErr
				op.ErrOf = &e
			}
			g.c.Ops = append(g.c.Ops, op)
		default:
			g.c.Ops = append(g.c.Ops, Op{K: OpString, S: s})
		}
	}
	return g.c
}

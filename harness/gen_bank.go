package harness

import (
	"fmt"

	"pgregory.net/rapid"
)

// ---------------------------------------------------------------------------
// Generator of histories over the declared function bank (distinct code
// pointers): used where dig's observable output depends on the function's
// identity — constructor IDs (C18), DOT clusters (C19), callback names (C20).
// ---------------------------------------------------------------------------

type BankKnobs struct {
	MinOps, MaxOps, MaxScopes, MaxDepth                       int
	WScope, WProvide, WDecorate, WInvoke, WVisualize, WString int

	PAvail     int // pick an entry whose required parameters are all available
	PExport    int
	PCallback  int
	PInfo      int
	PInfoShare int
	PFaultKind int
	PLocPC     int // a constructor is provided with LocationForPC(code pointer of another bank literal)
	// NoInvokeEK: invoked functions never fail with an error that wraps a
	// foreign dig.Error (C19: whether such an error "can be visualized" is
	// not decidable from the error value alone - unspecified zone)
	NoInvokeEK bool
	PFault     int
	PPanic     int
	PSysClock  int // keep dig's system clock (Runtime only bounded)
	PErrPtr    int // prefer an entry whose error result has a concrete type
	PErr2      int // prefer an entry with two error results
	PRepeat    int // allow a second instance of an already used entry (same code pointer)
	PDefer     int
	PRecover   int
	PDur       int  // function advances the mock clock
	VisErr     bool // Visualize ops carry the error of the last failed Invoke
	PVisErr    int
	PVisAfter  int // a Visualize(VisualizeError) op is placed right after an Invoke
	PDeepFail  int // Invoke entries whose direct parameters are provided but not buildable
	PDeep      int // prefer entries that have parameters (deeper closures)
	PChain     int // prefer entries that consume an output of the most recently registered constructor
}

func DefaultBankKnobs() BankKnobs {
	return BankKnobs{
		MinOps: 3, MaxOps: 18, MaxScopes: 4, MaxDepth: 3,
		WScope: 2, WProvide: 10, WDecorate: 2, WInvoke: 6,
		PAvail: 85, PExport: 15, PDefer: 10, PRecover: 50,
	}
}

type bankGen struct {
	last *MFn // most recently registered constructor (predicted accepted)
	*gen
	bk      BankKnobs
	used    map[int]int
	lastErr int
}

func (g *bankGen) entryAvail(i int, s int, kind int) bool {
	mf := NewMFn(BankFn(i, -1), nil, kind, s)
	ok, _ := g.m.Available(mf)
	return ok
}

// pickEntry selects a bank entry of the wanted kind.
func (g *bankGen) pickEntry(kind string, s int, lbl string) (int, bool) {
	var all, good []int
	mk := KCtor
	if kind == "deco" {
		mk = KDeco
	} else if kind == "invoke" {
		mk = KInvoke
	}
	for i, sp := range BankSpecs {
		if sp.Kind != kind {
			continue
		}
		if g.used[i] > 0 && !(kind == "invoke") {
			continue
		}
		all = append(all, i)
		if g.entryAvail(i, s, mk) {
			good = append(good, i)
		}
	}
	if g.pct(g.bk.PRepeat, lbl+"rep") {
		var usedL []int
		for i, sp := range BankSpecs {
			if sp.Kind == kind && g.used[i] > 0 {
				usedL = append(usedL, i)
			}
		}
		if len(usedL) > 0 {
			return usedL[g.pick(len(usedL), lbl+"ru")], true
		}
	}
	if kind != "invoke" && g.pct(g.bk.PErrPtr, lbl+"errptr") {
		// functions whose error result has a concrete type (always fail)
		var ptr []int
		for _, i := range all {
			if BankSpecs[i].ErrT == "ptr" {
				ptr = append(ptr, i)
			}
		}
		if len(ptr) > 0 {
			return ptr[g.pick(len(ptr), lbl+"ep")], true
		}
	}
	if kind != "invoke" && g.pct(g.bk.PErr2, lbl+"err2") {
		// functions with two error results (both non-nil on failure)
		var two []int
		for _, i := range all {
			if BankSpecs[i].Err2 {
				two = append(two, i)
			}
		}
		if len(two) > 0 {
			return two[g.pick(len(two), lbl+"e2")], true
		}
	}
	if kind == "invoke" && g.pct(g.bk.PDeepFail, lbl+"deepfail") {
		// direct parameters all have a visible constructor, but something
		// deeper is missing
		var deep []int
		for _, i := range all {
			mf := NewMFn(BankFn(i, -1), nil, mk, s)
			direct := true
			for _, lf := range mf.Leaves {
				if !lf.Opt && !lf.IsGroup && g.m.ExpectSingle(mf, lf.Key) == nil {
					direct = false
				}
			}
			if ok, _ := g.m.Available(mf); direct && !ok {
				deep = append(deep, i)
			}
		}
		if len(deep) > 0 {
			return deep[g.pick(len(deep), lbl+"df")], true
		}
	}
	if kind == "ctor" && len(good) > 0 {
		// prefer entries whose single keys are not provided yet in this scope
		var fresh []int
		for _, i := range good {
			mf := NewMFn(BankFn(i, -1), nil, KCtor, s)
			if g.m.DupProvide(mf) == "" {
				fresh = append(fresh, i)
			}
		}
		if len(fresh) > 0 && g.pct(88, lbl+"fresh") {
			good = fresh
		}
	}
	if kind == "invoke" && len(good) == 0 && !g.pct(15, lbl+"anyway") {
		return 0, false
	}
	if len(good) > 0 && g.pct(g.bk.PAvail, lbl+"av") {
		if g.last != nil && g.pct(g.bk.PChain, lbl+"chain") {
			var chain []int
			for _, i := range good {
				mf := NewMFn(BankFn(i, -1), nil, mk, s)
				for _, lf := range mf.Leaves {
					if g.last.SlotFor(lf.Key) >= 0 && g.m.IsAnc(g.last.Home, s) {
						chain = append(chain, i)
						break
					}
				}
			}
			if len(chain) > 0 {
				return chain[g.pick(len(chain), lbl+"ch")], true
			}
		}
		if g.pct(g.bk.PDeep, lbl+"deep") {
			var withParams []int
			for _, i := range good {
				if len(BankSpecs[i].P) > 0 {
					withParams = append(withParams, i)
				}
			}
			if len(withParams) > 0 {
				return withParams[g.pick(len(withParams), lbl+"gp")], true
			}
		}
		return good[g.pick(len(good), lbl+"g")], true
	}
	if len(all) == 0 {
		return 0, false
	}
	return all[g.pick(len(all), lbl+"a")], true
}

func (g *bankGen) decorate(f *Fn) {
	if g.pct(g.bk.PFault, "fault?") {
		n := 1 + g.pick(2, "nf")
		for i := 0; i < n; i++ {
			if g.pct(g.bk.PPanic, "panic?") {
				f.Faults = append(f.Faults, FaultPanic)
			} else if f.Err {
				f.Faults = append(f.Faults, FaultError)
			} else {
				f.Faults = append(f.Faults, FaultOK)
			}
		}
		if g.pct(g.bk.PFaultKind, "faultkind") {
			f.EK = g.pick(3, "ek")
			f.PK = g.pick(8, "pk")
		}
	}
	if g.pct(g.bk.PDur, "dur?") {
		f.Dur = 1 + g.pick(1000, "dur")
	}
}

func GenBankCase(t *rapid.T, bk BankKnobs) *Case {
	base := &gen{t: t, k: DefaultKnobs(), m: NewModel(), c: &Case{}, nscope: 1}
	base.k.PInfoShare = bk.PInfoShare
	g := &bankGen{gen: base, bk: bk, used: map[int]int{}, lastErr: -1}
	g.c.Cfg.Defer = g.pct(bk.PDefer, "defer")
	g.c.Cfg.Recover = g.pct(bk.PRecover, "recover")
	g.c.Cfg.SysClock = g.pct(bk.PSysClock, "sysclock")
	nops := rapid.IntRange(bk.MinOps, bk.MaxOps).Draw(t, "nops")
	for len(g.c.Ops) < nops {
		// registrations dominate the first half of a history, invocations
		// the second half
		early := len(g.c.Ops)*2 < nops
		bk := bk
		if early {
			bk.WProvide *= 3
		} else {
			bk.WInvoke *= 3
		}
		total := bk.WScope + bk.WProvide + bk.WDecorate + bk.WInvoke + bk.WVisualize + bk.WString
		r := g.pick(total, "op")
		s := g.pick(g.nscope, "s")
		switch {
		case r < bk.WScope:
			if g.nscope >= bk.MaxScopes {
				continue
			}
			parent := s
			if g.m.Depth(parent) >= bk.MaxDepth {
				parent = 0
			}
			name := fmt.Sprintf("s%d", g.nscope)
			g.m.AddScope(parent, name)
			g.nscope++
			g.c.Ops = append(g.c.Ops, Op{K: OpScope, S: parent, Name: name})
		case r < bk.WScope+bk.WProvide:
			i, ok := g.pickEntry("ctor", s, "pe")
			if !ok {
				continue
			}
			g.used[i]++
			f := BankFn(i, g.nextID+1)
			g.nextID++
			g.decorate(f)
			o := &Opts{}
			if s != 0 && g.pct(bk.PExport, "exp") {
				o.Export = true
			}
			o.CB = g.pct(bk.PCallback, "cb")
			o.Info = g.pct(bk.PInfo, "info")
			if o.Info {
				o.InfoSlot = g.infoSlot()
			}
			if g.pct(bk.PLocPC, "locpc") {
				o.LocPC = fmt.Sprintf("bank%d", g.pick(len(BankSpecs), "locpck"))
			}
			op := Op{K: OpProvide, S: s, F: f}
			if o.Export || o.CB || o.Info || o.LocPC != "" {
				op.O = o
			}
			mf := NewMFn(f, op.O, KCtor, s)
			if g.m.DupProvide(mf) == "" && !g.m.DigCycle(mf) {
				g.m.AddCtor(mf)
				g.last = mf
			}
			g.c.Ops = append(g.c.Ops, op)
		case r < bk.WScope+bk.WProvide+bk.WDecorate:
			i, ok := g.pickEntry("deco", s, "de")
			if !ok {
				continue
			}
			g.used[i]++
			f := BankFn(i, g.nextID+1)
			g.nextID++
			g.decorate(f)
			op := Op{K: OpDecorate, S: s, F: f}
			o := &Opts{CB: g.pct(bk.PCallback, "cb"), Info: g.pct(bk.PInfo, "info")}
			if o.Info {
				o.InfoSlot = g.infoSlot()
			}
			if o.CB || o.Info {
				op.O = o
			}
			mf := NewMFn(f, nil, KDeco, s)
			if g.m.DupDecorate(mf) == "" {
				g.m.AddDeco(mf)
				if g.anyDecoCycle() {
					g.removeDeco(mf)
					g.used[i]--
					continue
				}
			}
			g.c.Ops = append(g.c.Ops, op)
		case r < bk.WScope+bk.WProvide+bk.WDecorate+bk.WInvoke:
			i, ok := g.pickEntry("invoke", s, "ie")
			if !ok {
				// nothing can be invoked yet: register something instead
				if j, ok2 := g.pickEntry("ctor", s, "pe2"); ok2 {
					g.used[j]++
					f := BankFn(j, g.nextID+1)
					g.nextID++
					g.decorate(f)
					op := Op{K: OpProvide, S: s, F: f}
					mf := NewMFn(f, nil, KCtor, s)
					if g.m.DupProvide(mf) == "" && !g.m.DigCycle(mf) {
						g.m.AddCtor(mf)
						g.last = mf
					}
					g.c.Ops = append(g.c.Ops, op)
				}
				continue
			}
			g.used[i]++
			f := BankFn(i, g.nextID+1)
			g.nextID++
			g.decorate(f)
			if bk.NoInvokeEK {
				f.EK = 0
			}
			op := Op{K: OpInvoke, S: s, F: f}
			if g.pct(bk.PInfo, "info") {
				op.O = &Opts{Info: true, InfoSlot: g.infoSlot()}
			}
			g.c.Ops = append(g.c.Ops, op)
			g.lastErr = len(g.c.Ops) - 1
			if g.pct(bk.PVisAfter, "visafter") {
				e := g.lastErr
				g.c.Ops = append(g.c.Ops, Op{K: OpVisualize, ErrOf: &e})
			}
		case r < bk.WScope+bk.WProvide+bk.WDecorate+bk.WInvoke+bk.WVisualize:
			op := Op{K: OpVisualize}
			if g.lastErr >= 0 && g.pct(bk.PVisErr, "viserr") {
				e := g.lastErr
				op.ErrOf = &e
			}
			g.c.Ops = append(g.c.Ops, op)
		default:
			g.c.Ops = append(g.c.Ops, Op{K: OpString, S: s})
		}
	}
	return g.c
}

package harness

import (
	"fmt"
	"os"
	"sort"
	"strings"
	"time"
)

// ---------------------------------------------------------------------------
// Log validation: the observed trace of a case is checked against the model,
// and the model adopts what was observed (accepted registrations, successful
// executions). Every deviation is recorded as a Finding with a clause name;
// each property check asserts the clauses it owns.
// ---------------------------------------------------------------------------

type Finding struct {
	Clause string
	Op     int
	Msg    string
}

func (f Finding) String() string { return fmt.Sprintf("[%s] op %d: %s", f.Clause, f.Op, f.Msg) }

// Clause names.
const (
	CUserCodeOutsideInvoke = "user-code-outside-invoke"        // C03
	CUnregisteredRan       = "unregistered-fn-ran"             // C01/C06
	CExecTwice             = "exec-twice"                      // C02
	CNested                = "nested-entry"                    // C02
	CNestedInvoke          = "nested-invoke"                   // an Invoke made from a callback fails although everything it needs is built
	COutsideClosure        = "outside-closure"                 // C03
	CMustRunMissing        = "mustrun-missing"                 // C03
	CProvSingle            = "prov-single"                     // C01/C08/C09/C12
	CFromNowhere           = "value-from-nowhere"              // C01/C08/C09
	CZeroAvailable         = "zero-for-available"              // C01/C04
	CZeroRequired          = "zero-required"                   // C01/C04
	CNonZeroUnavail        = "nonzero-for-unavailable"         // C04
	CBadExec               = "from-failed-or-unfinished-exec"  // C07/C03
	CPoisoned              = "poisoned-token"                  // C07
	CGroupMultiset         = "group-multiset"                  // C10/C12
	CGroupForeign          = "group-foreign-member"            // C01/C10
	CSoftUpper             = "soft-upper"                      // C11
	CSoftLower             = "soft-lower"                      // C11
	CSoftDup               = "soft-dup"                        // C11
	CInvokedOnce           = "invoked-once"                    // C01
	CVerdictInvoke         = "verdict-invoke"                  // C04/C08
	CVerdictProvide        = "verdict-provide"                 // C09
	CVerdictDecorate       = "verdict-decorate"                // C12
	CUnavailDirectRan      = "ran-with-unavailable-direct-dep" // C04
	CEscapedPanic          = "escaped-panic"                   // C14 and everything
	CForeign               = "foreign-value"                   // harness sanity
	CRootCause             = "root-cause"                      // C07/C13
	CContinued             = "continued-after-failure"         // C07
	CErrIdentity           = "invoke-error-identity"           // C13
	CErrClass              = "error-class"                     // C13
	CCallback              = "callback"                        // C20
	CSpuriousCycle         = "spurious-cycle"                  // C05/C13
	CZeroBehindBrokenDeco  = "zero-behind-broken-decorator"    // C01
	CMissedCycleInvoke     = "missed-cycle-at-invoke"          // C05/C13: resolution traverses a constructor cycle, Invoke must report it
)

type InvokeInfo struct {
	Failures        int
	Bystanders      int // registered functions outside mayRun at the time of the Invoke
	BystanderScopes int
	Op              int
	Fn              *MFn
	Zones           Zones
	MayRun          map[int]bool
	MustRun         map[int]bool
	Avail           bool
	FaultFree       bool
	Pred            string // predicted class ("" = not predicted)
	Ran             []int  // fn ids entered during the op (in order)
	RanOK           []int
	Invoked         int
	// MidKeys: keys whose constructor was registered from inside a body
	// while this Invoke was running: whether a consumer resolved in the
	// same Invoke saw it depends on the order of resolution (unspecified)
	MidKeys map[MKey]bool
}

type VResult struct {
	Findings []Finding
	M        *Model
	Invokes  []*InvokeInfo
	// Registration verdict predictions, by op index.
	DupPred map[int]string
	// Labels for classification of the case.
	Labels map[string]bool
	// Tainted: an Invoke inside the KF-DECO-CYCLE pattern was executed; dig's
	// state after it is not described by any property, validation stops.
	Tainted bool
	// Blind: a registration using types/tags/options outside the model's
	// grammar was accepted; model predictions are no longer asserted.
	Blind bool
	// Counters
	ZoneSkips int
	Poisoned  map[int64]bool
	// Demands: per producing function, how often and through which kinds of
	// path its outputs were delivered.
	Demands map[int]*Demand
}

type Demand struct {
	N     int
	Kinds map[string]bool
}

func (v *VResult) demand(prod int, kind string, view int) {
	if v.Demands == nil {
		v.Demands = map[int]*Demand{}
	}
	d := v.Demands[prod]
	if d == nil {
		d = &Demand{Kinds: map[string]bool{}}
		v.Demands[prod] = d
	}
	d.N++
	d.Kinds[kind] = true
	d.Kinds[fmt.Sprintf("scope%d", view)] = true
}

func (v *VResult) add(clause string, op int, format string, a ...interface{}) {
	v.Findings = append(v.Findings, Finding{clause, op, fmt.Sprintf(format, a...)})
}

// Has reports whether a finding with one of the clauses exists.
func (v *VResult) First(clauses ...string) *Finding {
	set := map[string]bool{}
	for _, c := range clauses {
		set[c] = true
	}
	for i := range v.Findings {
		if set[v.Findings[i].Clause] {
			return &v.Findings[i]
		}
	}
	return nil
}

// strictKF disables the exclusion of known-finding patterns; the driver sets
// it when it replays the repro of a known finding to see whether it still
// fails.
var strictKF = os.Getenv("VERIF_STRICT_KF") != ""

type VOpts struct {
	// ValidSigs: every Provide/Decorate in the case has a well-formed
	// signature and option set, so the only legitimate rejections are
	// duplicates and cycles.
	ValidSigs bool
}

// checkCBNested judges an Invoke made from inside a callback (Opts.CBInvoke):
// the callback runs after its function has completed, so a consumer of the
// function's keys invoked there is an ordinary consumer. Claims are made only
// when nothing has to be built for it (every function in its closure has
// completed): anything else may legitimately meet a constructor that is still
// under construction further up.
func (v *VResult) checkCBNested(c *Case, rt *RT, i int, ii *InvokeInfo, ev Event, okAtStart map[int]bool) {
	m := v.M
	owner := -ev.Fn - 1000000
	var spec *Reenter
	for _, op := range c.Ops {
		if op.F != nil && op.F.ID == owner && op.O != nil && op.O.CBInvoke != nil {
			spec = op.O.CBInvoke
		}
	}
	if spec == nil || (ev.Kind != EvEnter && ev.Kind != EvNested) || ev.CBPanics {
		return
	}
	nf := NewMFn(&Fn{ID: ev.Fn, P: spec.P}, nil, KInvoke, m.scope(spec.S))
	if m.ZonesOf(nf).Any() {
		return
	}
	for id := range m.MayRun(nf) {
		if g := m.Fns[id]; g == nil || g.OkExec < 0 {
			return
		}
	}
	for _, l := range nf.Leaves {
		if !l.IsGroup && !l.Opt && m.NoSource(nf, l.Key) {
			return
		}
		if ii.MidKeys[l.Key] {
			return
		}
	}
	v.Labels["callback-invoke-judged"] = true
	switch ev.Kind {
	case EvNested:
		if ev.SideErr != nil {
			v.add(CNestedInvoke, i, "an Invoke made from the callback of f%d for %v, all of whose dependencies are built, returned %v", owner, nf.F.Short(), ev.SideErr)
		}
	case EvEnter:
		// "ran before the Invoke" is judged at the time of the nested Invoke
		okNow := map[int]bool{}
		for id, g := range m.Fns {
			okNow[id] = g.OkExec >= 0
		}
		for _, l := range nf.Leaves {
			obs, ok := navigate(ev.Args, l.Path)
			if !ok {
				continue
			}
			v.checkLeaf(rt, i, ii, nf, l, obs, okNow)
		}
	}
}

// nestedWindows marks the events that lie between a callback that makes an
// Invoke (Opts.CBInvoke) and the return of that Invoke.
func nestedWindows(c *Case, evs []Event) []bool {
	in := make([]bool, len(evs))
	open := map[int]int{}
	for j, ev := range evs {
		if ev.Kind == EvCB && ev.CBErr == nil {
			if _, isOpen := open[ev.Fn]; !isOpen && cbInvokeSpec(c, ev.Fn) != nil {
				open[ev.Fn] = j
			}
		}
		if ev.Kind == EvNested {
			owner := -ev.Fn - 1000000
			if from, ok := open[owner]; ok {
				for x := from + 1; x <= j; x++ {
					in[x] = true
				}
			}
		}
	}
	return in
}

// cbInvokeSpec: the Opts.CBInvoke of function id, if any.
func cbInvokeSpec(c *Case, id int) *Reenter {
	for _, op := range c.Ops {
		if op.F != nil && op.F.ID == id && op.O != nil && op.O.CBInvoke != nil {
			return op.O.CBInvoke
		}
	}
	return nil
}

// keyConflictAttempt: registrations whose declared keys contradict each other
// (generated on purpose, Knobs.PEmptyGroup): they must be rejected.
func keyConflictAttempt(op Op) string {
	if op.F == nil {
		return ""
	}
	if op.O != nil && strings.HasPrefix(op.O.Group, ",") {
		return fmt.Sprintf("a value group without a name (Group(%q))", op.O.Group)
	}
	if op.O != nil && op.O.Name != "" && op.O.Group != "" {
		return fmt.Sprintf("Name(%q) together with Group(%q)", op.O.Name, op.O.Group)
	}
	var walk func(rs []Result) string
	walk = func(rs []Result) string {
		for _, r := range rs {
			if r.Tag == "" && r.Name != "" && r.Group != "" {
				return fmt.Sprintf("a result field tagged name:%q and group:%q", r.Name, r.Group)
			}
			if s := walk(r.Obj); s != "" {
				return s
			}
		}
		return ""
	}
	if s := walk(op.F.R); s != "" {
		return s
	}
	var walkP func(ps []Param) string
	walkP = func(ps []Param) string {
		for _, p := range ps {
			if strings.HasPrefix(p.Tag, "group:\",") {
				return fmt.Sprintf("a value-group parameter without a name (%s)", p.Tag)
			}
			if s := walkP(p.Obj); s != "" {
				return s
			}
		}
		return ""
	}
	return walkP(op.F.P)
}

// sideFnOf finds the constructor spec with the given id among the functions
// that bodies of the case register (Fn.SideFn).
func sideFnOf(c *Case, id int) *Fn {
	for _, op := range c.Ops {
		if op.F != nil && op.F.SideFn != nil && op.F.SideFn.ID == id {
			return op.F.SideFn
		}
	}
	return nil
}

func navigate(args []Prov, path string) (Prov, bool) {
	parts := strings.Split(path, ".")
	var cur Prov
	for i, p := range parts {
		var idx int
		fmt.Sscanf(p, "%d", &idx)
		if i == 0 {
			if idx >= len(args) {
				return Prov{}, false
			}
			cur = args[idx]
		} else {
			if idx >= len(cur.Fields) {
				return Prov{}, false
			}
			cur = cur.Fields[idx]
		}
	}
	return cur, true
}

// fnHasHost: the signature uses types the model cannot analyse.
func fnHasHost(f *Fn) bool {
	var hp func(p Param) bool
	hp = func(p Param) bool {
		if p.Host != "" || p.Tag != "" {
			return true
		}
		for _, q := range p.Obj {
			if hp(q) {
				return true
			}
		}
		return false
	}
	var hr func(r Result) bool
	hr = func(r Result) bool {
		if r.Host != "" || r.Tag != "" {
			return true
		}
		for _, q := range r.Obj {
			if hr(q) {
				return true
			}
		}
		return false
	}
	for _, p := range f.P {
		if hp(p) {
			return true
		}
	}
	for _, r := range f.R {
		if hr(r) {
			return true
		}
	}
	return false
}

func hasPendingFault(g *MFn) bool {
	if g.F.Err && g.F.ErrT == "ptr" {
		return true // a concrete-typed error result: every execution is a failure
	}
	for i := g.Execs; i < len(g.F.Faults); i++ {
		if g.F.Faults[i] != FaultOK {
			if g.F.Faults[i] == FaultError && !g.F.Err {
				continue
			}
			return true
		}
	}
	return false
}

// Validate walks the trace.
func Validate(c *Case, tr *Trace, vo VOpts) *VResult {
	v := &VResult{M: NewModel(), DupPred: map[int]string{}, Labels: map[string]bool{}, Poisoned: map[int64]bool{}}
	m := v.M
	rt := tr.RT
	scopeOfOp := map[int]int{}
	rejected := map[int]bool{} // fn ids of rejected registrations

	for i, op := range c.Ops {
		out := tr.Ops[i]
		if out.Class == "skipped" || out.Class == "" {
			if op.K == OpScope && out.Class != "skipped" {
				// not executed (StopAfter)
			}
			if op.K != OpScope {
				continue
			}
		}
		if out.Panicked && op.K != OpInvoke {
			v.add(CEscapedPanic, i, "%s panicked: %v", op.K, out.PanicVal)
		}
		if out.Panicked && op.K == OpInvoke && !userPanic(out.PanicVal) {
			// a panic that no generated function body raised: dig's own
			v.add(CEscapedPanic, i, "Invoke panicked on its own: %v", out.PanicVal)
		}
		switch op.K {
		case OpScope:
			scopeOfOp[i] = m.AddScope(op.S, op.Name)
			if out.Ev1 > out.Ev0 {
				v.add(CUserCodeOutsideInvoke, i, "Scope() executed user code: %v", tr.ExecutedSet(i))
			}
		case OpProvide, OpDecorate:
			if out.Ev1 > out.Ev0 {
				v.add(CUserCodeOutsideInvoke, i, "%s executed user code: %v", op.K, tr.ExecutedSet(i))
			}
			if op.F == nil {
				continue
			}
			kind := KCtor
			if op.K == OpDecorate {
				kind = KDeco
			}
			mf := NewMFn(op.F, op.O, kind, m.scope(op.S))
			mf.Op = i
			var dup string
			if kind == KCtor {
				dup = m.DupProvide(mf)
			} else {
				dup = m.DupDecorate(mf)
			}
			v.DupPred[i] = dup
			accepted := out.Class == ClOK
			if out.Class == ClOther {
				v.add(CErrClass, i, "%s returned an error that does not satisfy dig.Error after RootCause: %v", op.K, out.Err)
			}
			if out.Class == ClCycle {
				if kind == KDeco {
					v.add(CSpuriousCycle, i, "Decorate reported a cycle: %v", out.Err)
				} else if !v.Blind && !fnHasHost(op.F) && !(op.O != nil && len(op.O.AsRaw) > 0) && !m.MaxCyclic(append(m.AllCtors(), mf)) {
					v.add(CSpuriousCycle, i, "Provide rejected as a cycle although the graph is acyclic under the most permissive reading: %v", out.Err)
				}
			}
			unspecTouch := false
			if kind == KCtor {
				for _, k := range mf.Keys() {
					if m.Unspec[mf.Home][k] {
						unspecTouch = true
					}
				}
				for _, k := range ownInAs(op.F, op.O) {
					for _, g := range m.Scopes[mf.Home].Ctors {
						if g.SlotFor(k) >= 0 {
							unspecTouch = true
						}
					}
				}
				if unspecTouch {
					v.Labels["as-own-type-zone"] = true
				}
			}
			if what := keyConflictAttempt(op); kind == KCtor && what != "" {
				// a value group needs a name ((type, "") is the key of the
				// plain unnamed value of that type), and one result cannot
				// be a named value and a group member at once
				v.Labels["nameless-group-attempt"] = true
				if accepted {
					v.add(CVerdictProvide, i, "%s was accepted", what)
				}
				if !accepted {
					rejected[op.F.ID] = true
				}
				continue
			}
			if vo.ValidSigs && !unspecTouch {
				clause := CVerdictProvide
				if kind == KDeco {
					clause = CVerdictDecorate
				}
				if dup != "" && accepted {
					v.add(clause, i, "accepted although %s", dup)
				}
				if dup != "" && !accepted && out.Class != ClDig {
					v.add(clause, i, "duplicate (%s) rejected with class %s, want dig error", dup, out.Class)
				}
				if dup == "" && !accepted && out.Class != ClCycle {
					v.add(clause, i, "rejected (%s: %v) although signature is valid and no key collides", out.Class, out.Err)
				}
			}
			if accepted && (fnHasHost(op.F) || (op.O != nil && len(op.O.AsRaw) > 0)) {
				v.Blind = true
				v.Labels["model-blind"] = true
			}
			if accepted {
				if kind == KCtor {
					m.MarkUnspec(mf)
					m.AddCtor(mf)
				} else {
					m.AddDeco(mf)
				}
			} else {
				rejected[op.F.ID] = true
			}
		case OpVisualize, OpString:
			if out.Ev1 > out.Ev0 {
				v.add(CUserCodeOutsideInvoke, i, "%s executed user code: %v", op.K, tr.ExecutedSet(i))
			}
		case OpInvoke:
			if op.F == nil {
				continue
			}
			if v.Tainted || v.Blind {
				continue
			}
			v.validateInvoke(c, tr, rt, i, op, out, rejected)
		}
	}
	if len(rt.Nested) > 0 {
		v.add(CNested, -1, "functions entered while already running: %v", rt.Nested)
	}
	return v
}

func (v *VResult) validateInvoke(c *Case, tr *Trace, rt *RT, i int, op Op, out OpOut, rejected map[int]bool) {
	m := v.M
	fn := NewMFn(op.F, nil, KInvoke, m.scope(op.S))
	fn.Op = i
	ii := &InvokeInfo{Op: i, Fn: fn}
	v.Invokes = append(v.Invokes, ii)
	ii.Zones = m.ZonesOf(fn)
	ii.MayRun = m.MayRun(fn)
	ii.MustRun = m.MustRun(fn)
	avail, _ := m.Available(fn)
	ii.Avail = avail
	ii.FaultFree = !hasPendingFault(fn)
	for id := range ii.MayRun {
		if g := m.Fns[id]; g != nil && g.OkExec < 0 && hasPendingFault(g) {
			ii.FaultFree = false
		}
	}
	okAtStart := map[int]bool{}
	bsScopes := map[int]bool{}
	for id, g := range m.Fns {
		if g.OkExec >= 0 {
			okAtStart[id] = true
		}
		if !ii.MayRun[id] {
			ii.Bystanders++
			bsScopes[g.View] = true
		}
	}
	ii.BystanderScopes = len(bsScopes)
	zoneSkip := ii.Zones.DecoCycle || ii.Zones.DecoNoProvider || ii.Zones.CtorCycle || ii.Zones.AsOwn
	if zoneSkip {
		v.ZoneSkips++
	}
	if ii.Zones.DecoCycle && strictKF {
		zoneSkip = ii.Zones.DecoNoProvider || ii.Zones.CtorCycle || ii.Zones.AsOwn
	}
	if ii.Zones.DecoCycle && !strictKF {
		// known finding KF-DECO-CYCLE: nothing about this Invoke or the
		// state it leaves behind is asserted
		v.Tainted = true
		v.Labels["excluded-known-deco-cycle"] = true
		return
	}

	for _, ev := range tr.Events(i) {
		if ev.Kind == EvSide && ev.SideErr == nil {
			if sf := sideFnOf(c, ev.Fn); sf != nil {
				if ii.MidKeys == nil {
					ii.MidKeys = map[MKey]bool{}
				}
				for _, k := range NewMFn(sf, nil, KCtor, 0).Keys() {
					ii.MidKeys[k] = true
				}
			}
		}
	}
	if ii.MidKeys != nil {
		ii.FaultFree = false // no verdict prediction for this Invoke
	}
	// Snapshot leaf availability before execution (registrations do not
	// change during an Invoke).
	evsAll := tr.Events(i)
	// windows of Invokes made from callbacks: [position of the callback
	// event, position of the EvNested event]; what registered functions
	// receive when they run inside such a window is not judged (a decorator
	// that is building its arguments further up is skipped by design)
	inWindow := nestedWindows(c, evsAll)
	for evIdx, ev := range evsAll {
		if ev.Fn < 0 {
			// function invoked re-entrantly from inside a user function body
			v.Labels["reentrant-invoke"] = true
			if ev.Fn <= cbNestedID(0) && !zoneSkip {
				// no claim while some decorator has yet to start its body
				// in this operation (it may be building its arguments)
				decoLater := false
				for _, later := range evsAll[evIdx+1:] {
					if later.Kind == EvEnter && later.Fn >= 0 {
						if g := m.Fns[later.Fn]; g != nil && g.Kind == KDeco {
							decoLater = true
						}
					}
				}
				for _, a := range ev.Active {
					if g := m.Fns[a]; g != nil && g.Kind == KDeco {
						decoLater = true
					}
				}
				if !decoLater {
					v.checkCBNested(c, rt, i, ii, ev, okAtStart)
				}
			}
			continue
		}
		switch ev.Kind {
		case EvSide:
			// a constructor body registered another constructor while this
			// Invoke was running: from here on it is part of the container
			// (its key is fresh and nothing registered consumes it, so the
			// resolution in progress cannot depend on it)
			v.Labels["registration-from-inside-a-body"] = true
			if ev.SideErr == nil {
				if sf := sideFnOf(c, ev.Fn); sf != nil {
					mf := NewMFn(sf, nil, KCtor, m.scope(ev.SideScope))
					mf.Op = i
					if dup := m.DupProvide(mf); dup != "" {
						v.add(CVerdictProvide, i, "a Provide made from inside a body was accepted although %s", dup)
					}
					m.AddCtor(mf)
				}
			} else if classify(ev.SideErr) == ClCycle {
				v.add(CSpuriousCycle, i, "a Provide of a parameterless constructor made from inside a body was rejected as a cycle: %v", ev.SideErr)
			}
		case EvEnter:
			var g *MFn
			if ev.Fn == fn.ID {
				g = fn
				ii.Invoked++
			} else {
				g = m.Fns[ev.Fn]
			}
			ii.Ran = append(ii.Ran, ev.Fn)
			if g == nil {
				what := "never registered"
				if rejected[ev.Fn] {
					what = "rejected"
				}
				v.add(CUnregisteredRan, i, "f%d ran but its registration was %s", ev.Fn, what)
				continue
			}
			g.Execs++
			if g.Fails > 0 {
				v.Labels["retry-after-fault"] = true
				if g.O != nil && g.O.CB {
					v.Labels["cb-fn-retried"] = true
				}
			}
			if g != fn {
				if g.OkExec >= 0 {
					v.add(CExecTwice, i, "%v executed again (exec %d) after successful exec %d", g, ev.Exec, g.OkExec)
				}
				midFn := false
				if ii.MidKeys != nil && g.F != nil && sideFnOf(c, g.ID) == g.F {
					midFn = true // registered (and perhaps already demanded) during this very Invoke
				}
				if ii.MidKeys != nil {
					// a key whose constructor was registered during this
					// very Invoke has a decorator: the decorator and
					// everything it depends on became reachable meanwhile
					for _, d := range m.Fns {
						if d.Kind != KDeco {
							continue
						}
						for _, k := range d.Keys() {
							if ii.MidKeys[k] {
								midFn = true
							}
						}
					}
				}
				if !ii.MayRun[g.ID] && !midFn && !inWindow[evIdx] {
					v.add(COutsideClosure, i, "%v ran but is not reachable from the invoked function (mayRun=%v)", g, sortedIDs(ii.MayRun))
				}
			}
			if zoneSkip {
				continue
			}
			if inWindow[evIdx] {
				v.Labels["ran-inside-callback-invoke"] = true
				continue
			}
			for _, l := range g.Leaves {
				obs, ok := navigate(ev.Args, l.Path)
				if !ok {
					v.add(CForeign, i, "%v: cannot navigate to leaf %s", g, l.Path)
					continue
				}
				if ii.MidKeys[l.Key] {
					v.Labels["resolved-while-being-registered"] = true
					continue
				}
				v.checkLeaf(rt, i, ii, g, l, obs, okAtStart)
			}
			// C04: a constructor whose own direct dependencies are
			// unavailable must not run.
			if g != fn {
				for _, l := range g.Leaves {
					if l.Opt || l.IsGroup {
						continue
					}
					if m.ExpectSingle(g, l.Key) == nil {
						v.add(CUnavailDirectRan, i, "%v ran although nothing provides its required %v", g, l.Key)
					}
				}
			}
		case EvExit:
			var g *MFn
			if ev.Fn == fn.ID {
				g = fn
			} else {
				g = m.Fns[ev.Fn]
			}
			if g == nil {
				continue
			}
			if ev.Outcome == FaultOK {
				if g != fn {
					g.OkExec = ev.Exec
					g.OkToks = ev.Toks
					ii.RanOK = append(ii.RanOK, g.ID)
				}
			} else {
				g.Fails++
				for _, t := range ev.Toks {
					v.Poisoned[t] = true
				}
			}
		}
	}
	cbPanicked := false
	for _, ev := range tr.Events(i) {
		if ev.Kind == EvCB && ev.CBPanics {
			cbPanicked = true
		}
	}
	if cbPanicked {
		// a callback panicked: what this Invoke returns is not covered by
		// any property (only the state it leaves behind is, and that has
		// been adopted above); no verdict, no root-cause claim
		v.Labels["callback-panicked"] = true
		ii.FaultFree = false
		if out.Panicked {
			if pv, ok := out.PanicVal.(*CBPanicVal); !ok || pv == nil {
				if _, isUser := out.PanicVal.(*PanicVal); !isUser {
					if _, isUserErr := out.PanicVal.(*PanicErr); !isUserErr {
						if _, isStr := out.PanicVal.(string); !isStr {
							v.add(CEscapedPanic, i, "a callback panicked and Invoke panicked with a foreign value: %v", out.PanicVal)
						}
					}
				}
			}
		}
		v.checkCallbacks(c, tr, rt, i, fn)
		return
	}
	v.checkFailures(c, tr, rt, i, out, fn, ii)
	v.checkCallbacks(c, tr, rt, i, fn)
	if ii.Failures > 0 && len(ii.RanOK) > 0 {
		v.Labels["failure-beside-success"] = true
	}
	ncb := 0
	for _, ev := range tr.Events(i) {
		if ev.Kind == EvCB {
			ncb++
		}
	}
	if ncb >= 2 {
		v.Labels["cb>=2-in-one-invoke"] = true
	}
	for id := range ii.MustRun {
		if g := m.Fns[id]; g != nil && okAtStart[id] && g.O != nil && g.O.CB {
			v.Labels["cb-fn-cached"] = true
		}
	}
	if out.Class == ClOK && ii.Invoked != 1 {
		v.add(CInvokedOnce, i, "Invoke succeeded but the function ran %d times", ii.Invoked)
	}
	if out.Class != ClOK && ii.Invoked > 1 {
		v.add(CInvokedOnce, i, "invoked function ran %d times", ii.Invoked)
	}
	if out.Class == ClOK && !zoneSkip && !ii.Zones.SoftDecorated && !ii.Zones.OptDecoUnavail && ii.MidKeys == nil {
		for id := range ii.MustRun {
			if g := m.Fns[id]; g != nil && g.OkExec < 0 {
				v.add(CMustRunMissing, i, "Invoke succeeded but %v in its closure has not run", g)
			}
		}
	}
	if ii.Zones.CtorCycle && !ii.Zones.DecoCycle && !ii.Zones.DecoNoProvider && ii.FaultFree && !c.Cfg.Dry {
		// run-time resolution re-enters a constructor under construction:
		// the Invoke must fail with IsCycleDetected (or with a missing-
		// dependency error when a hole in the closure may be met first)
		v.Labels["invoke-traverses-ctor-cycle"] = true
		hole := false
		for id := range ii.MayRun {
			if g := m.Fns[id]; g != nil && !okAtStart[id] {
				for _, lf := range g.Leaves {
					if !lf.Opt && !lf.IsGroup && m.NoSource(g, lf.Key) {
						hole = true
					}
				}
			}
		}
		for _, lf := range fn.Leaves {
			if !lf.Opt && !lf.IsGroup && m.NoSource(fn, lf.Key) {
				hole = true
			}
		}
		switch {
		case out.Class == ClCrash || out.Class == ClRisky:
			if out.Class == ClCrash {
				v.add(CMissedCycleInvoke, i, "resolution re-enters a constructor under construction and the process died (stack overflow) instead of returning a cycle error")
			}
		case out.Class == ClCycle:
		case hole:
			// a missing dependency in the closure may be met before the
			// cycle (and, below an optional edge, be forgiven): no claim
			v.Labels["invoke-cycle-with-hole"] = true
		default:
			v.add(CMissedCycleInvoke, i, "resolution traverses a constructor cycle but Invoke returned class %s (%v), want an error for which IsCycleDetected is true", out.Class, out.Err)
		}
	}
	if out.Class == ClCycle && !ii.Zones.CtorCycle && !ii.Zones.GraphCyclic && !ii.Zones.DecoCycle {
		v.add(CSpuriousCycle, i, "Invoke reports a cycle (IsCycleDetected) although the registered graph is acyclic under the most permissive reading and resolution traverses no cycle: %v", out.Err)
	}
	// Verdict prediction.
	if !ii.Zones.Any() && ii.FaultFree && !c.Cfg.Dry {
		if avail {
			ii.Pred = ClOK
		} else {
			ii.Pred = ClDig
			direct := false
			for _, l := range fn.Leaves {
				if !l.Opt && !l.IsGroup && m.ExpectSingle(fn, l.Key) == nil {
					direct = true
					for _, other := range m.Fns {
						if other.Kind == KCtor && other.SlotFor(l.Key) >= 0 {
							v.Labels["provider-not-visible"] = true
						}
					}
				}
			}
			if !direct {
				v.Labels["deep-hole"] = true
			}
		}
		if out.Class != ii.Pred {
			v.add(CVerdictInvoke, i, "Invoke class %s (%v), model predicts %s (available=%v)", out.Class, out.Err, ii.Pred, avail)
		}
		if !avail && ii.Invoked > 0 {
			v.add(CVerdictInvoke, i, "invoked function ran although a required dependency is unavailable")
		}
	}
}

// checkFailures: the Invoke's error must be the failing execution's own
// sentinel (C07, C13).
func (v *VResult) checkFailures(c *Case, tr *Trace, rt *RT, i int, out OpOut, fn *MFn, ii *InvokeInfo) {
	type fail struct{ fn, exec, outcome int }
	var fails []fail
	win := nestedWindows(c, tr.Events(i))
	for j, ev := range tr.Events(i) {
		if win[j] && !(ev.Kind == EvExit && ev.Outcome == FaultPanic && !c.Cfg.Recover) {
			// the callback drops the error of the Invoke it makes (a
			// panic that dig does not recover passes through it)
			continue
		}
		if ev.Kind == EvExit && ev.Outcome != FaultOK && ev.Fn >= 0 {
			fails = append(fails, fail{ev.Fn, ev.Exec, ev.Outcome})
		}
	}
	ii.Failures = len(fails)
	if len(fails) == 0 {
		if out.Class == ClUser || out.Class == ClPanicErr || out.Class == ClPanicked {
			v.add(CRootCause, i, "Invoke reports %s (%v / panic %v) but no user function failed during it", out.Class, out.Err, out.PanicVal)
		}
		if out.Class == ClOther {
			v.add(CErrClass, i, "Invoke returned an error that is neither a user error, a PanicError nor a dig.Error after RootCause: %v", out.Err)
		}
		return
	}
	if len(fails) > 1 {
		v.add(CContinued, i, "%d user functions failed during one Invoke (resolution continued after the first failure): %v", len(fails), fails)
	}
	f0 := fails[0]
	v.Labels["user-failure"] = true
	if f0.fn != fn.ID {
		if g := v.M.Fns[f0.fn]; g != nil {
			if g.Kind == KDeco {
				v.Labels["decorator-failed"] = true
			}
			if g.View != fn.View {
				v.Labels["fail-cross-scope"] = true
			}
			if d := v.resolutionDepth(fn, g); d >= 3 {
				v.Labels["fail-depth>=3"] = true
			}
			for _, k := range g.Keys() {
				if k.Group != "" {
					v.Labels["fail-through-group"] = true
				}
			}
		}
	}
	switch f0.outcome {
	case FaultError:
		want := rt.errValueOf(f0.fn, f0.exec)
		if out.Panicked {
			v.add(CRootCause, i, "f%d returned an error but Invoke panicked: %v", f0.fn, out.PanicVal)
			return
		}
		if f0.fn == fn.ID {
			if out.Err != error(want) {
				v.add(CErrIdentity, i, "the invoked function returned %v but Invoke returned %v (not the identical error)", want, out.Err)
			}
			return
		}
		if out.Err == nil {
			v.add(CRootCause, i, "f%d failed with an error but Invoke returned nil", f0.fn)
			return
		}
		if !rt.ownErr(f0.fn, f0.exec, digRootCause(out.Err)) {
			v.add(CRootCause, i, "f%d failed with %v but RootCause(err) is %v (err: %v)", f0.fn, want, digRootCause(out.Err), out.Err)
		}
		if e2, two := rt.errs2[[2]int{f0.fn, f0.exec}]; !errorsIs(out.Err, want) && !(two && errorsIs(out.Err, e2)) {
			v.add(CRootCause, i, "errors.Is(err, the error returned by f%d) is false (err: %v)", f0.fn, out.Err)
		}
		if out.Class == ClCycle {
			v.add(CErrClass, i, "IsCycleDetected is true for a user error: %v", out.Err)
		}
	case FaultPanic:
		want := rt.panicOf(f0.fn, f0.exec)
		if !c.Cfg.Recover {
			if !out.Panicked {
				v.add(CRootCause, i, "f%d panicked, RecoverFromPanics is off, but Invoke returned normally (err: %v): the panic was swallowed", f0.fn, out.Err)
			} else if !samePanic(out.PanicVal, want) {
				v.add(CRootCause, i, "f%d panicked with %v but the panic that reached the caller is %v", f0.fn, want, out.PanicVal)
			}
			return
		}
		if out.Panicked {
			v.add(CRootCause, i, "f%d panicked and RecoverFromPanics is on, but the panic escaped Invoke: %v", f0.fn, out.PanicVal)
			return
		}
		pv, isPE, isDig := panicErrorOf(out.Err)
		if !isPE {
			v.add(CRootCause, i, "f%d panicked with RecoverFromPanics on but RootCause(err) is not a PanicError: %v", f0.fn, out.Err)
			return
		}
		if !samePanic(pv, want) {
			v.add(CRootCause, i, "PanicError carries %v, want the value f%d panicked with (%v)", pv, f0.fn, want)
		}
		if isDig {
			v.add(CErrClass, i, "the PanicError root cause also satisfies dig.Error")
		}
		if out.Class == ClCycle {
			v.add(CErrClass, i, "IsCycleDetected is true for a recovered panic")
		}
	}
}

// resolutionDepth: BFS distance from the invoked function to g in the
// resolution graph.
func (v *VResult) resolutionDepth(from, to *MFn) int {
	type qe struct {
		f *MFn
		d int
	}
	seen := map[*MFn]bool{from: true}
	q := []qe{{from, 0}}
	for len(q) > 0 {
		cur := q[0]
		q = q[1:]
		if cur.f == to {
			return cur.d
		}
		for _, l := range cur.f.Leaves {
			for _, t := range v.M.Targets(cur.f, l) {
				if !seen[t] {
					seen[t] = true
					q = append(q, qe{t, cur.d + 1})
				}
			}
		}
	}
	return -1
}

// checkCallbacks: callback events and executions correspond one-to-one, with
// the true outcome, name and run time (C20).
func (v *VResult) checkCallbacks(c *Case, tr *Trace, rt *RT, i int, fn *MFn) {
	if c.Cfg.Dry {
		return
	}
	evs := tr.Events(i)
	for j, ev := range evs {
		switch ev.Kind {
		case EvExit:
			g := v.M.Fns[ev.Fn]
			if g == nil || g.O == nil || !g.O.CB {
				continue
			}
			v.Labels["callback-fired"] = true
			if j+1 >= len(evs) || evs[j+1].Kind != EvCB || evs[j+1].Fn != ev.Fn {
				v.add(CCallback, i, "%v finished (outcome %d) but its callback was not called right after it", g, ev.Outcome)
				continue
			}
			cb := evs[j+1]
			switch ev.Outcome {
			case FaultOK:
				if cb.CBErr != nil {
					v.add(CCallback, i, "%v succeeded but its callback received Error=%v", g, cb.CBErr)
				}
			case FaultError:
				want := rt.errValueOf(ev.Fn, ev.Exec)
				// the callback may get the function's error itself (dig does
				// not wrap a decorator's error) or dig's wrapping of it
				if cb.CBErr == nil || !(rt.ownErr(ev.Fn, ev.Exec, cb.CBErr) || rt.ownErr(ev.Fn, ev.Exec, digRootCause(cb.CBErr))) {
					v.add(CCallback, i, "%v failed with %v but its callback received Error=%v", g, want, cb.CBErr)
				}
			case FaultPanic:
				if c.Cfg.Recover {
					pv, isPE, _ := panicErrorOf(cb.CBErr)
					if !isPE || !samePanic(pv, rt.panicOf(ev.Fn, ev.Exec)) {
						v.add(CCallback, i, "%v panicked (recovered) but its callback received Error=%v", g, cb.CBErr)
					}
				}
			}
			if g.F.Bank > 0 {
				want := BankName(g.F.Bank - 1)
				if g.O != nil {
					// LocationForPC overrides what identifies the function
					var k int
					if n, _ := fmt.Sscanf(g.O.LocPC, "bank%d", &k); n == 1 {
						want = BankName(k)
						v.Labels["callback-name-from-LocationForPC"] = true
					}
				}
				if cb.CBName != want {
					v.add(CCallback, i, "%v: callback Name=%q, want %q", g, cb.CBName, want)
				}
			}
			if c.Cfg.SysClock {
				v.Labels["callback-on-system-clock"] = true
				if cb.CBRuntime < 0 || cb.CBRuntime > tr.Ops[i].Wall {
					v.add(CCallback, i, "%v: callback Runtime=%v on the system clock; the whole API call took %v", g, cb.CBRuntime, tr.Ops[i].Wall)
				}
			} else if int64(cb.CBRuntime) != int64(g.F.Dur) {
				v.add(CCallback, i, "%v: callback Runtime=%v but the function itself advanced the clock by %v", g, cb.CBRuntime, time.Duration(g.F.Dur))
			}
		case EvCB:
			if j == 0 || evs[j-1].Kind != EvExit || evs[j-1].Fn != ev.Fn {
				v.add(CCallback, i, "callback of f%d fired without a preceding execution of that function", ev.Fn)
			}
			if g := v.M.Fns[ev.Fn]; g == nil {
				v.add(CCallback, i, "callback of f%d fired but that function is not registered", ev.Fn)
			}
		}
	}
}

func (v *VResult) descKey(rt *RT, tok int64) string {
	d, ok := rt.Desc(tok)
	if !ok {
		return fmt.Sprintf("badtok(%d)", tok)
	}
	return fmt.Sprintf("f%d#%d/%s/%d", d.Fn, d.Exec, d.Slot, d.Elem)
}

func (v *VResult) checkLeaf(rt *RT, op int, ii *InvokeInfo, g *MFn, l MLeaf, obs Prov, okAtStart map[int]bool) {
	m := v.M
	if obs.Kind == "foreign" {
		v.add(CForeign, op, "%v leaf %s: foreign value", g, l.Path)
		return
	}
	if !l.IsGroup {
		if obs.Kind != "single" {
			v.add(CForeign, op, "%v leaf %s: expected single, got %s", g, l.Path, obs.Kind)
			return
		}
		exp := m.ExpectSingle(g, l.Key)
		if exp == nil {
			for _, other := range m.Fns {
				if other.Kind == KCtor && other.SlotFor(l.Key) >= 0 {
					v.Labels["provider-not-visible"] = true
				}
			}
		}
		if exp != nil && exp.Fn.Slots[exp.Slot].Zero {
			// the producer returns the zero value for this key by design
			v.Labels["zero-valued-result-consumed"] = true
			if obs.Tok != 0 {
				v.add(CProvSingle, op, "%v leaf %s (%v) received %s, want the zero value that %v returns for it", g, l.Path, l.Key, v.descKey(rt, obs.Tok), exp.Fn)
				return
			}
			if exp.Fn.OkExec >= 0 {
				kind := "single"
				if g.Kind == KDeco {
					kind = "deco-input"
				}
				v.demand(exp.Fn.ID, kind, g.View)
				return
			}
			// producer has not run: fall through to the zero-value rules
		}
		if obs.Tok == 0 && ii.MidKeys != nil && l.Opt {
			// what was available when this optional leaf was resolved
			// depends on whether the registration made during this Invoke
			// had happened yet: no claim
			v.Labels["resolved-while-being-registered"] = true
			return
		}
		if obs.Tok == 0 {
			if l.Opt && exp != nil && !m.LeafAvailable(g, l) {
				v.Labels["optional-above-hole"] = true
			}
			if l.Opt && ii.Zones.OptDecoUnavail {
				// C04 leaves this corner out; C01 does not: an optional
				// argument whose constructor is available must be that
				// constructor's value as replaced by the nearest decorator -
				// when that decorator cannot run, the consumer must not run
				// with a zero standing in
				if d := m.NearestDeco(g.View, l.Key, selfFor(g, l.Key)); d != nil {
					if okd, _ := m.Available(d); !okd {
						if p := m.NearestProvider(g.View, l.Key); p != nil {
							if okp, _ := m.Available(p); okp {
								v.add(CZeroBehindBrokenDeco, op, "%v leaf %s (%v, optional) is zero: its constructor %v is available, its nearest decorator %v cannot run (unavailable dependencies), yet the consumer was called", g, l.Path, l.Key, p, d)
							}
						}
					}
				}
			}
			if l.Opt {
				if m.LeafAvailable(g, l) && !(ii.Zones.OptDecoUnavail) {
					v.add(CZeroAvailable, op, "%v leaf %s (%v, optional) is zero although its dependency is available from scope %d", g, l.Path, l.Key, g.View)
				}
			} else {
				v.add(CZeroRequired, op, "%v leaf %s (%v, required) received the zero value", g, l.Path, l.Key)
			}
			return
		}
		if v.Poisoned[obs.Tok] {
			v.add(CPoisoned, op, "%v leaf %s received %s, a value returned by a failed execution", g, l.Path, v.descKey(rt, obs.Tok))
		}
		d, ok := rt.Desc(obs.Tok)
		if !ok {
			v.add(CForeign, op, "%v leaf %s: unknown token %d", g, l.Path, obs.Tok)
			return
		}
		if exp == nil {
			v.add(CFromNowhere, op, "%v leaf %s (%v) received %s but no constructor or decorator for that key is visible from scope %d", g, l.Path, l.Key, v.descKey(rt, obs.Tok), g.View)
			return
		}
		want := exp.Fn.Slots[exp.Slot]
		if d.Fn != exp.Fn.ID || d.Slot != want.Path || d.Elem != 0 {
			extra := ""
			if m.Fns[d.Fn] == nil {
				extra = " (a function that is not registered)"
			}
			v.add(CProvSingle, op, "%v leaf %s (%v) received %s%s, want output %s of %v", g, l.Path, l.Key, v.descKey(rt, obs.Tok), extra, want.Path, exp.Fn)
			return
		}
		if exp.Fn.OkExec != d.Exec {
			v.add(CBadExec, op, "%v leaf %s received %s but that execution has not completed successfully (ok exec = %d)", g, l.Path, v.descKey(rt, obs.Tok), exp.Fn.OkExec)
		}
		kind := "single"
		if g.Kind == KDeco {
			kind = "deco-input"
		}
		v.demand(exp.Fn.ID, kind, g.View)
		if l.Opt && !m.LeafAvailable(g, l) {
			v.add(CNonZeroUnavail, op, "%v leaf %s (%v, optional) is non-zero although the model finds it unavailable", g, l.Path, l.Key)
		}
		return
	}
	// group leaf
	if obs.Kind != "group" {
		v.add(CForeign, op, "%v leaf %s: expected group, got %s", g, l.Path, obs.Kind)
		return
	}
	var got []string
	for _, t := range obs.Elems {
		if t == 0 {
			got = append(got, "zero")
			continue
		}
		if v.Poisoned[t] {
			v.add(CPoisoned, op, "%v group leaf %s contains %s from a failed execution", g, l.Path, v.descKey(rt, t))
		}
		got = append(got, v.descKey(rt, t))
	}
	sort.Strings(got)
	deco, feeders := m.ExpectGroup(g, l.Key)
	var want []string
	if deco != nil {
		if deco.OkExec < 0 {
			v.add(CBadExec, op, "%v group leaf %s: decorator %v has not run successfully", g, l.Path, deco)
			return
		}
		for _, si := range deco.SlotsFor(l.Key) {
			s := deco.Slots[si]
			for e := 0; e < s.N; e++ {
				if e == 0 && s.ZeroFirst {
					want = append(want, "zero")
					continue
				}
				ee := e
				if s.Rep {
					ee = 0
				}
				want = append(want, fmt.Sprintf("f%d#%d/%s/%d", deco.ID, deco.OkExec, s.Path, ee))
			}
		}
		sort.Strings(want)
		if strings.Join(got, ",") != strings.Join(want, ",") {
			v.add(CGroupMultiset, op, "%v group leaf %s (%v): got %v, want decorator output %v", g, l.Path, l.Key, got, want)
		}
		return
	}
	// undecorated: members of visible feeders
	memberOf := map[string]*MFn{}
	var all []string   // members of all visible feeders that have run
	var lower []string // members that must be present for a soft group
	mustOther := map[int]bool{}
	if l.Soft {
		mustOther = v.mustRunOfSiblings(g, l, okAtStart)
	}
	for _, f := range feeders {
		for _, si := range f.SlotsFor(l.Key) {
			s := f.Slots[si]
			n := 1
			if s.Slice {
				n = s.N
			}
			for e := 0; e < n; e++ {
				if f.OkExec < 0 {
					// not run: a hard group must have run it
					if !l.Soft {
						want = append(want, fmt.Sprintf("f%d#<not run>/%s/%d", f.ID, s.Path, e))
					}
					continue
				}
				ee := e
				if s.Rep {
					ee = 0
				}
				key := fmt.Sprintf("f%d#%d/%s/%d", f.ID, f.OkExec, s.Path, ee)
				if s.Zero || (e == 0 && s.ZeroFirst) {
					key = "zero" // a member that is the zero value carries no token
				}
				memberOf[key] = f
				if e == 0 {
					v.demand(f.ID, "group", g.View)
				}
				all = append(all, key)
				want = append(want, key)
				if okAtStart[f.ID] || mustOther[f.ID] {
					lower = append(lower, key)
				}
			}
		}
	}
	sort.Strings(want)
	for _, k := range got {
		if memberOf[k] == nil {
			v.add(CGroupForeign, op, "%v group leaf %s (%v) contains %s which is not a member contributed by a constructor visible from scope %d", g, l.Path, l.Key, k, g.View)
		}
	}
	if !l.Soft {
		if strings.Join(got, ",") != strings.Join(want, ",") {
			v.add(CGroupMultiset, op, "%v group leaf %s (%v): got %v, want %v", g, l.Path, l.Key, got, want)
		} else if len(want) > 0 {
			v.Labels["group-request-ok"] = true
		}
		return
	}
	v.Labels["soft-executed"] = true
	if ii.Zones.SoftDecorated {
		return
	}
	cnt, allow := map[string]int{}, map[string]int{}
	for _, k := range all {
		allow[k]++
	}
	for _, k := range got {
		cnt[k]++
		if cnt[k] == allow[k]+1 && k != "zero" {
			v.add(CSoftDup, op, "%v soft group leaf %s contains %s %d times, its constructor contributes it %d times", g, l.Path, k, cnt[k], allow[k])
		}
	}
	need := map[string]int{}
	for _, k := range lower {
		need[k]++
	}
	for _, k := range lower {
		if cnt[k] < need[k] {
			v.add(CSoftLower, op, "%v soft group leaf %s (%v) has %s %d time(s), want %d: its constructor ran before the Invoke or is required by a sibling field", g, l.Path, l.Key, k, cnt[k], need[k])
			break
		}
	}
}

// mustRunOfSiblings: constructors required by the other fields of the same
// parameter object as soft leaf l.
func (v *VResult) mustRunOfSiblings(g *MFn, l MLeaf, okAtStart map[int]bool) map[int]bool {
	m := v.M
	if l.ObjPath == "" {
		return map[int]bool{}
	}
	pseudo := &MFn{ID: -1, Kind: g.Kind, View: g.View, Home: g.Home, F: g.F, OkExec: -1, Slots: g.Slots}
	for _, o := range g.Leaves {
		// every non-soft field of the object is built before its soft
		// fields, nested parameter objects included (as a whole)
		if strings.HasPrefix(o.Path, l.ObjPath+".") && o.Path != l.Path && !(o.IsGroup && o.Soft) {
			pseudo.Leaves = append(pseudo.Leaves, o)
		}
	}
	// selfFor needs the decorator identity; a pseudo function is never a
	// registered decorator, which is fine for sibling closure purposes
	// unless g is a decorator consuming its own key — be conservative there.
	if g.Kind == KDeco {
		return map[int]bool{}
	}
	return m.MustRunP(pseudo, func(t *MFn) bool { return okAtStart[t.ID] })
}

package harness

import (
	"encoding/json"
	"fmt"
	"reflect"
)

// BankSpec is the IR signature of one declared closure literal of the bank.
type BankSpec struct {
	P      []Param  `json:"p"`
	R      []Result `json:"r"`
	Err    bool     `json:"err"`
	Err2   bool     `json:"err2,omitempty"`
	ErrT   string   `json:"errt,omitempty"`
	ErrAt  int      `json:"errat"` // as Fn.ErrAt: >0 = the error result is not the last result
	Invoke bool     `json:"invoke"`
	Kind   string   `json:"kind"` // ctor | deco | invoke
}

var (
	BankSpecs []BankSpec
	bankTypes []reflect.Type
)

func init() {
	bankLookup = func(i int) func(rt *RT, f *Fn) interface{} {
		if i < 0 || i >= len(bankFactories) {
			return nil
		}
		return bankFactories[i]
	}
	if err := json.Unmarshal([]byte(bankSpecsJSON), &BankSpecs); err != nil {
		panic(err)
	}
	if len(BankSpecs) != len(bankFactories) {
		panic("bank specs / factories mismatch")
	}
	for i, mk := range bankFactories {
		t := reflect.TypeOf(mk(nil, nil))
		bankTypes = append(bankTypes, t)
		// sanity: the declared signature must be what the IR spec describes
		want := fnType(&Fn{P: BankSpecs[i].P, R: BankSpecs[i].R, Err: BankSpecs[i].Err, ErrAt: BankSpecs[i].ErrAt, Err2: BankSpecs[i].Err2, ErrT: BankSpecs[i].ErrT})
		if want.NumIn() != t.NumIn() || want.NumOut() != t.NumOut() {
			panic(fmt.Sprintf("bank entry %d: signature %v does not match its spec %v", i, t, want))
		}
	}
}

// BankFn instantiates bank entry i as an IR function with the given id.
func BankFn(i, id int) *Fn {
	s := BankSpecs[i]
	return &Fn{ID: id, P: s.P, R: s.R, Err: s.Err, ErrAt: s.ErrAt, Err2: s.Err2, ErrT: s.ErrT, Bank: i + 1}
}

// BankName is the function name dig reports for bank entry i (closure
// literal number 1 inside func bank<i> of this package).
func BankName(i int) string { return fmt.Sprintf("verifharness.bank%d.func1", i) }

package harness

import (
	"errors"

	"go.uber.org/dig"
)

func digRootCause(err error) error { return dig.RootCause(err) }

func errorsIs(err, target error) bool { return errors.Is(err, target) }

// panicErrorOf inspects RootCause(err): the carried panic value, whether it
// is a PanicError and whether it (also) satisfies dig.Error.
func panicErrorOf(err error) (val interface{}, isPanicErr, isDigErr bool) {
	if err == nil {
		return nil, false, false
	}
	root := dig.RootCause(err)
	var pe dig.PanicError
	if !errors.As(root, &pe) {
		return nil, false, false
	}
	var de dig.Error
	return pe.Panic, true, errors.As(root, &de)
}

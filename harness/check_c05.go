package harness

import (
	"fmt"
	"hash/fnv"
	"os"
	"strconv"
	"strings"

	"go.uber.org/dig"
	"pgregory.net/rapid"
)

// ---------------------------------------------------------------------------
// C05 — cycle safety. (a) the graph search itself through the VerifIsAcyclic
// hook: exhaustively for small digraphs, sampled for larger ones; (b) Provide
// and Invoke verdicts against three readings of the registered graph; (c) the
// reported cycle path.
// ---------------------------------------------------------------------------

type GraphCase struct {
	N     int      `json:"n"`
	Edges [][2]int `json:"edges"`
}

func (g *GraphCase) hash() uint64 {
	h := fnv.New64a()
	fmt.Fprint(h, g.N, g.Edges)
	return h.Sum64()
}

// reference: reachability closure (Warshall)
func refAcyclic(n int, edges [][2]int) bool {
	reach := make([][]bool, n)
	for i := range reach {
		reach[i] = make([]bool, n)
	}
	for _, e := range edges {
		reach[e[0]][e[1]] = true
	}
	for k := 0; k < n; k++ {
		for i := 0; i < n; i++ {
			if reach[i][k] {
				for j := 0; j < n; j++ {
					if reach[k][j] {
						reach[i][j] = true
					}
				}
			}
		}
	}
	for i := 0; i < n; i++ {
		if reach[i][i] {
			return false
		}
	}
	return true
}

func checkGraph(g *GraphCase) *Failure {
	ok, path := dig.VerifIsAcyclic(g.N, g.Edges)
	want := refAcyclic(g.N, g.Edges)
	if ok != want {
		return &Failure{"graph-verdict", fmt.Sprintf("IsAcyclic(n=%d, edges=%v) = %v, reference says %v", g.N, g.Edges, ok, want)}
	}
	if ok {
		if len(path) != 0 {
			return &Failure{"graph-path", fmt.Sprintf("acyclic graph but a path %v was returned", path)}
		}
		return nil
	}
	if len(path) < 2 {
		return &Failure{"graph-path", fmt.Sprintf("cyclic graph (n=%d, edges=%v) but reported path %v is too short", g.N, g.Edges, path)}
	}
	if path[0] != path[len(path)-1] {
		return &Failure{"graph-path", fmt.Sprintf("reported cycle path %v is not closed (n=%d, edges=%v)", path, g.N, g.Edges)}
	}
	has := map[[2]int]bool{}
	for _, e := range g.Edges {
		has[e] = true
	}
	for i := 0; i+1 < len(path); i++ {
		if path[i] < 0 || path[i] >= g.N || !has[[2]int{path[i], path[i+1]}] {
			return &Failure{"graph-path", fmt.Sprintf("reported cycle path %v uses %d->%d which is not an edge (n=%d, edges=%v)", path, path[i], path[i+1], g.N, g.Edges)}
		}
	}
	return nil
}

// exhaustive enumeration of all digraphs (self-loops allowed) on n nodes,
// slice `shard` of `shards`.
func enumerateGraphs(n int, shard, shards int, st *Stats) (*Case, *Failure) {
	bits := n * n
	total := uint64(1) << uint(bits)
	for code := uint64(shard); code < total; code += uint64(shards) {
		var edges [][2]int
		for b := 0; b < bits; b++ {
			if code&(1<<uint(b)) != 0 {
				edges = append(edges, [2]int{b / n, b % n})
			}
		}
		g := &GraphCase{N: n, Edges: edges}
		if f := checkGraph(g); f != nil {
			return &Case{Graph: g}, f
		}
		st.RecordRaw(code^uint64(n)<<56, len(edges) >= 3, nil, func() interface{} { return g })
	}
	st.Count(fmt.Sprintf("exhaustive_digraphs_n%d", n), int((total+uint64(shards)-1-uint64(shard))/uint64(shards)))
	return nil, nil
}

func genGraph(t *rapid.T) *GraphCase {
	n := rapid.IntRange(1, 12).Draw(t, "n")
	ne := rapid.IntRange(0, 3*n).Draw(t, "ne")
	g := &GraphCase{N: n}
	for i := 0; i < ne; i++ {
		u := rapid.IntRange(0, n-1).Draw(t, "u")
		v := rapid.IntRange(0, n-1).Draw(t, "v")
		g.Edges = append(g.Edges, [2]int{u, v})
		if rapid.IntRange(0, 9).Draw(t, "dup") == 9 {
			g.Edges = append(g.Edges, [2]int{u, v}) // duplicated edge
		}
	}
	return g
}

// ---------------------------------------------------------------------------
// (b) readings of the registered graph
// ---------------------------------------------------------------------------

// minEdges: G_min(S) — nearest-wins from S (single keys), every feeder of a group (soft ones too).
func (m *Model) minEdges(S int, u *MFn, extra *MFn) []*MFn {
	var out []*MFn
	nearest := func(k MKey) *MFn {
		for _, a := range m.Anc(S) {
			cs := m.Scopes[a].Ctors
			for _, c := range cs {
				if c.SlotFor(k) >= 0 {
					return c
				}
			}
			if extra != nil && extra.Home == a && extra.SlotFor(k) >= 0 {
				return extra
			}
		}
		return nil
	}
	for _, l := range u.Leaves {
		if l.IsGroup {
			// soft groups included: the property lists value-group edges
			// without exception, and dig's graph has them
			for _, a := range m.Anc(S) {
				for _, c := range m.Scopes[a].Ctors {
					if c.SlotFor(l.Key) >= 0 {
						out = append(out, c)
					}
				}
				if extra != nil && extra.Home == a && extra.SlotFor(l.Key) >= 0 {
					out = append(out, extra)
				}
			}
			continue
		}
		if p := nearest(l.Key); p != nil {
			out = append(out, p)
		}
	}
	return out
}

// MinCycleThrough: does candidate f (not yet added) lie on a cycle of
// G_min(S) for some S in the subtree of its home? Returns the scope.
func (m *Model) MinCycleThrough(f *MFn) (int, bool) {
	for _, S := range m.Subtree(f.Home) {
		seen := map[*MFn]bool{}
		var dfs func(u *MFn) bool
		dfs = func(u *MFn) bool {
			for _, v := range m.minEdges(S, u, f) {
				if v == f {
					return true
				}
				if !seen[v] {
					seen[v] = true
					if dfs(v) {
						return true
					}
				}
			}
			return false
		}
		if dfs(f) {
			return S, true
		}
	}
	return 0, false
}

// RunCycleThrough: with candidate f tentatively registered, is there a cycle
// through f in the run-time resolution graph (every constructor's parameters
// resolved nearest-wins from the scope it was provided to; soft groups
// ignored) all of whose constructors are visible from one scope S? Such a
// cycle is a real dependency cycle among constructors as seen from S.
func (m *Model) RunCycleThrough(f *MFn) (int, []int, bool) {
	for _, sc := range m.Scopes {
		if len(sc.DecoL) > 0 {
			return 0, nil, false // decorators change resolution; not judged here
		}
	}
	home := m.Scopes[f.Home]
	home.Ctors = append(home.Ctors, f)
	m.Fns[f.ID] = f
	defer func() {
		home.Ctors = home.Ctors[:len(home.Ctors)-1]
		delete(m.Fns, f.ID)
	}()
	for _, S := range m.Subtree(f.Home) {
		vis := func(g *MFn) bool { return g.Kind == KCtor && m.IsAnc(g.Home, S) }
		seen := map[*MFn]bool{}
		var path []int
		var dfs func(u *MFn) bool
		dfs = func(u *MFn) bool {
			path = append(path, u.ID)
			for _, l := range u.Leaves {
				for _, v := range m.Targets(u, l) {
					if !vis(v) {
						continue
					}
					if v == f {
						return true
					}
					if !seen[v] {
						seen[v] = true
						if dfs(v) {
							return true
						}
					}
				}
			}
			path = path[:len(path)-1]
			return false
		}
		if dfs(f) {
			return S, path, true
		}
	}
	return 0, nil, false
}

// StrictCyclicAt: does the strict reading of scope S (all providers on the
// path) contain a cycle anywhere?
func (m *Model) StrictCyclicAt(S int) bool {
	state := map[*MFn]int{}
	var dfs func(u *MFn) bool
	dfs = func(u *MFn) bool {
		state[u] = 1
		for _, v := range m.strictEdges(S, u, nil) {
			if state[v] == 1 {
				return true
			}
			if state[v] == 0 && dfs(v) {
				return true
			}
		}
		state[u] = 2
		return false
	}
	for _, a := range m.Anc(S) {
		for _, c := range m.Scopes[a].Ctors {
			if state[c] == 0 && dfs(c) {
				return true
			}
		}
	}
	return false
}

// onMaxCycle: constructors that lie on some cycle of the permissive graph.
func (m *Model) onMaxCycle(all []*MFn) map[*MFn]bool {
	reach := map[*MFn]map[*MFn]bool{}
	for _, u := range all {
		reach[u] = map[*MFn]bool{}
		var dfs func(x *MFn)
		dfs = func(x *MFn) {
			for _, v := range m.MaxEdges(x, all) {
				if !reach[u][v] {
					reach[u][v] = true
					dfs(v)
				}
			}
		}
		dfs(u)
	}
	out := map[*MFn]bool{}
	for _, u := range all {
		if reach[u][u] {
			out[u] = true
		}
	}
	return out
}

// ctypesInCycleError extracts the constructor type strings listed by a cycle
// error's text.
func ctypesInCycleError(err error) []string {
	var out []string
	for _, line := range strings.Split(err.Error(), "\n") {
		line = strings.TrimPrefix(strings.TrimSpace(line), "depends on ")
		i := strings.Index(line, " provided by ")
		if i < 0 {
			continue
		}
		s := line[:i]
		if j := strings.LastIndex(s, ": func("); j >= 0 {
			s = s[j+2:]
		}
		if strings.HasPrefix(s, "func(") {
			out = append(out, s)
		}
	}
	return out
}

func checkC05History(c *Case, st *Stats) *Failure {
	tr := Run(c, RunOpts{Risky: "child"})
	m := NewModel()
	l := map[string]bool{}
	if c.Cfg.Defer {
		l["defer"] = true
	}
	var fail *Failure
	setFail := func(f *Failure) {
		if fail == nil {
			fail = f
		}
	}
	for i, op := range c.Ops {
		out := tr.Ops[i]
		if out.Panicked && op.K != OpInvoke {
			setFail(&Failure{CEscapedPanic, fmt.Sprintf("op %d (%s) panicked: %v", i, op.Short(), out.PanicVal)})
		}
		switch op.K {
		case OpScope:
			m.AddScope(op.S, op.Name)
		case OpDecorate:
			if out.Class == ClOK && op.F != nil {
				m.AddDeco(NewMFn(op.F, op.O, KDeco, m.scope(op.S)))
			}
		case OpProvide:
			if op.F == nil {
				continue
			}
			mf := NewMFn(op.F, op.O, KCtor, m.scope(op.S))
			dup := m.DupProvide(mf)
			all := append(m.AllCtors(), mf)
			if out.Class == ClCycle {
				l["cycle-rejected"] = true
				if dup == "" && !m.MaxCyclic(all) {
					setFail(&Failure{CSpuriousCycle, fmt.Sprintf("op %d (%s) rejected as a cycle although the graph is acyclic under the most permissive reading: %v", i, op.Short(), out.Err)})
				}
				_, minOK := m.MinCycleThrough(mf)
				if S, ok := m.MinCycleThrough(mf); ok && S != mf.Home {
					l["cycle-only-below-target"] = true
				}
				if _, _, ok := m.RunCycleThrough(mf); ok && dup == "" {
					l["cycle-rejected-is-run-time-cycle"] = true
					if !minOK {
						l["cycle-rejected-run-time-only(not-nearest-wins)"] = true
					}
				}
				for _, lf := range mf.Leaves {
					if lf.IsGroup || lf.Opt {
						l["cycle-candidate-has-group-or-optional-edge"] = true
					}
				}
				// (c) the reported path names only constructors on a cycle
				onCyc := m.onMaxCycle(all)
				types := map[string]bool{}
				for f := range onCyc {
					types[fnType(f.F).String()] = true
				}
				listed := ctypesInCycleError(out.Err)
				// (the text omits value-group nodes, so it is not necessarily
				// closed; closedness is checked on the search's own path in (a))
				if len(listed) < 1 {
					setFail(&Failure{"cycle-path", fmt.Sprintf("op %d: cycle error lists no function: %v", i, out.Err)})
				}
				if len(listed) > 2 {
					l["cycle-len>=2"] = true
				}
				for _, t := range listed {
					if !types[t] {
						setFail(&Failure{"cycle-path", fmt.Sprintf("op %d: cycle error lists %s which is not the type of any constructor on a cycle: %v", i, t, out.Err)})
					}
				}
			}
			if out.Class == ClOK {
				if !c.Cfg.Defer && dup == "" {
					if S, ok := m.MinCycleThrough(mf); ok {
						setFail(&Failure{"missed-cycle-at-provide", fmt.Sprintf("op %d (%s) was accepted although it closes a cycle as seen from scope %d (nearest-wins reading)", i, op.Short(), S)})
					}
					if S, path, ok := m.RunCycleThrough(mf); ok {
						l["run-cycle-at-provide"] = true
						setFail(&Failure{"missed-cycle-at-provide", fmt.Sprintf("op %d (%s) was accepted although it closes the run-time dependency cycle %v, all of whose constructors are visible from scope %d", i, op.Short(), path, S)})
					}
				}
				m.AddCtor(mf)
			}
		case OpInvoke:
			if op.F == nil {
				continue
			}
			fn := NewMFn(op.F, nil, KInvoke, m.scope(op.S))
			ci := m.FindCycles(fn)
			if ci.DecoCycle && !strictKF {
				st.Count("excluded_known_deco_cycle", 1)
				// state afterwards is not described: stop here
				goto done
			}
			switch {
			case out.Class == ClCrash || out.Class == ClRisky:
				l["invoke-crashed"] = true
				setFail(&Failure{"invoke-does-not-terminate", fmt.Sprintf("op %d (%s): resolution re-enters a constructor under construction (model cycle %v) and the process died (stack overflow) instead of returning a cycle error", i, op.Short(), ci.Path)})
			case ci.CtorCycle:
				l["invoke-cycle"] = true
				avail, _ := m.Available(fn)
				okClass := out.Class == ClCycle || (!avail && out.Class == ClDig)
				// a hole (missing required dependency) somewhere in the
				// closure may stop resolution before it reaches the cycle;
				// which of the two is met first is unspecified
				hole := false
				for id := range m.MayRun(fn) {
					if g := m.Fns[id]; g != nil && g.OkExec < 0 {
						for _, lf := range g.Leaves {
							if !lf.Opt && !lf.IsGroup && m.NoSource(g, lf.Key) {
								hole = true
							}
						}
					}
				}
				if hole {
					l["invoke-cycle-with-hole"] = true
					okClass = true
				}
				if !okClass {
					setFail(&Failure{"missed-cycle-at-invoke", fmt.Sprintf("op %d (%s): resolution traverses the constructor cycle %v but Invoke returned class %s (%v)", i, op.Short(), ci.Path, out.Class, out.Err)})
				}
				onPath := map[int]bool{}
				for _, id := range ci.Path {
					onPath[id] = true
				}
				for _, e := range tr.Events(i) {
					if e.Kind == EvEnter && onPath[e.Fn] && !hole {
						setFail(&Failure{"ran-on-cycle", fmt.Sprintf("op %d: f%d lies on the dependency cycle %v but was executed", i, e.Fn, ci.Path)})
					}
				}
			case out.Class == ClCycle:
				l["invoke-cycle-elsewhere"] = true
				var vis []*MFn
				for _, cc := range m.AllCtors() {
					if m.IsAnc(cc.Home, fn.View) {
						vis = append(vis, cc)
					}
				}
				if !m.MaxCyclic(vis) {
					setFail(&Failure{CSpuriousCycle, fmt.Sprintf("op %d (%s): Invoke reports a cycle although the constructors visible from the invoking scope form an acyclic graph under the most permissive reading: %v", i, op.Short(), out.Err)})
				}
			}
			// adopt successful executions
			for _, e := range tr.Events(i) {
				if e.Kind == EvExit && e.Outcome == FaultOK {
					if g := m.Fns[e.Fn]; g != nil {
						g.OkExec = e.Exec
					}
				}
			}
		}
	}
done:
	if len(tr.RT.Nested) > 0 {
		setFail(&Failure{CNested, fmt.Sprintf("constructors were entered while they were already being built: %v", tr.RT.Nested)})
	}
	if tr.RT.Reentered > 0 {
		l["reentrant-invoke"] = true
	}
	l["scopes>=2"] = len(m.Scopes) >= 2
	for _, op := range c.Ops {
		if op.O != nil && op.O.Export {
			l["has-export"] = true
		}
	}
	nt := (l["cycle-rejected"] || l["invoke-cycle"] || l["invoke-cycle-elsewhere"]) &&
		((l["cycle-len>=2"] && l["scopes>=2"]) || l["cycle-candidate-has-group-or-optional-edge"] || l["invoke-cycle"])
	st.Record(c, nt, l)
	st.Count("child_process_runs", ChildRuns)
	ChildRuns = 0
	return fail
}

func init() {
	register(&PropDef{
		ID:          "C05",
		Rule:        "(a) the cycle search via the VerifIsAcyclic hook: ALL digraphs with self-loops on n<=4 nodes (quick; n=5 in thorough, 2^25 graphs) plus rapid-sampled digraphs on n<=12 nodes with duplicated edges, against a Warshall reference, with path validity; (b) generated histories of constructors over scope trees with Export, late/early child scopes, group/optional/named/object edges, cycle-closing registrations, with and without DeferAcyclicVerification, judged against three readings of the registered graph (nearest-wins per scope = must reject; permissive = may reject; run-time resolution = Invoke must fail with IsCycleDetected, nothing on the cycle runs, the process survives - risky Invokes are first executed in a child process); (c) a reported path is closed and names only constructors on a cycle. Non-trivial (histories) = a cycle verdict with a path of >=2 constructors in >=2 scopes, or a group/optional edge at the closing constructor, or an Invoke-time cycle; (graphs) = >=3 edges. distinct by FNV-64",
		Assumptions: []string{"hook VerifIsAcyclic (build tag verif) wraps internal/graph.IsAcyclic unchanged", "\"resolution always terminates\" is checked as: every generated Invoke returns (or its child process survives); only sub-check (a) is exhaustive, up to n=4 (quick) / n=5 (thorough)"},
		Pre: func(st *Stats, shard, shards int, thorough bool) (*Case, *Failure) {
			maxN := 4
			if thorough {
				maxN = 5
			}
			for n := 1; n <= maxN; n++ {
				if c, f := enumerateGraphs(n, shard, shards, st); f != nil {
					return c, f
				}
			}
			return nil, nil
		},
		Gen: func(t *rapid.T, thorough bool) *Case {
			if rapid.IntRange(0, 9).Draw(t, "kind") < 2 {
				return &Case{Graph: genGraph(t)}
			}
			k := DefaultKnobs()
			k.NoDecorators = true
			k.WCycleCloser = 7
			k.WShadowCycle = 2
			k.WProvide, k.WInvoke, k.WScope = 10, 6, 5
			k.PCycleKeep = 60
			k.PExport = 30
			k.PDefer = 40
			k.PHole = 70
			k.PAvail = 80
			k.PreferAvailable = false
			k.POpt, k.PGroupParam, k.PGroupRes, k.PSoft = 25, 30, 30, 25
			k.Types = []string{"T0", "T1", "T2", "T3", "S0"}
			k.Ifaces = []string{"I0"}
			k.Names = []string{"a"}
			k.Groups = []string{"g"}
			k.MaxScopes, k.MaxDepth = 6, 3
			k.MaxOps = 22
			// a fifth of the histories: constructor bodies call back into
			// the container (a constructor under construction must never
			// be re-entered)
			if rapid.IntRange(0, 9).Draw(t, "reentrant-case") >= 8 {
				k.PReenter = 40
			}
			return GenCase(t, scale(k, thorough))
		},
		Check: func(c *Case, st *Stats) *Failure {
			if c.Graph != nil {
				f := checkGraph(c.Graph)
				st.RecordRaw(c.Graph.hash(), len(c.Graph.Edges) >= 3, map[string]bool{"sampled-digraph": true}, func() interface{} { return c.Graph })
				return f
			}
			return checkC05History(c, st)
		},
	})
}

func envInt(name string, def int) int {
	if v, err := strconv.Atoi(os.Getenv(name)); err == nil {
		return v
	}
	return def
}

package harness

import (
	"fmt"
	"strings"

	"pgregory.net/rapid"
)

// ---------------------------------------------------------------------------
// History generator (DESIGN.md §1.4). Construction over rejection: the
// generator keeps a registration model in step (its *prediction* of what dig
// accepts) and draws parameters mostly from visible keys, results mostly from
// fresh keys. The produced Case is a pure function of the rapid bit stream.
// ---------------------------------------------------------------------------

type Knobs struct {
	MinOps, MaxOps int
	MaxScopes      int
	MaxDepth       int
	MaxParams      int
	MaxResults     int

	Types  []string // concrete types in play
	Ifaces []string
	Names  []string // non-empty names in play
	Groups []string

	// Operation weights
	WScope, WProvide, WDecorate, WInvoke, WVisualize, WString int
	// weights of deliberately rejected / hostile operations (C06, C14)
	WBadProvide, WBadDecorate, WBadInvoke, WCycleCloser, WDupDecorate int
	WShadowCycle                                                      int
	// PFocus: after a deliberately rejected registration, probability that
	// the next operations re-use its keys
	PFocus int

	// Probabilities in percent
	PAvail      int // param drawn from keys visible at the function's scope
	PFresh      int // result drawn from keys not yet provided in the target scope
	PEmptyGroup int // a Provide whose Group option has modifiers but no name (",flatten"): must be rejected
	PShadow     int // result key drawn from keys that an ancestor scope already provides (shadowing)
	POpt        int // single param is optional
	PNamed      int // result is named
	PGroupRes   int // result is a group member
	PGroupParam int // a param is a group (when groups are visible / at random)
	PSoft       int // group param is soft
	PFlatten    int // group result is a flatten slice
	PAs         int // single-result constructor uses As
	PAsObj      int // As given to a constructor with several results / result objects (applies to every non-group result)
	PExport     int
	PObjParam   int // plain param leaf is folded into an In object
	PObjResult  int // plain result is folded into an Out object
	PNest       int // object gets nested in another object
	PErr        int // function has an error result
	PVariadic   int
	PFault      int // function gets a fault plan (needs PErr or panics)
	PPanic      int // a fault is a panic rather than an error
	PFaultKind  int // a faulty function fails with an unusual value (error wrapping a foreign dig.Error; panic with an error / string value)
	PDecoSelf   int // decorator consumes the key it decorates
	PDecoGroup  int // decorator targets a group
	PDecoMulti  int // decorator decorates a second key
	PDecoExtra  int // decorator has an extra dependency
	PDecoOrphan int // decorator for a key that has no visible constructor (unspecified zone; only purely differential checks use it)
	PInvokeAll  int // Invoke parameter drawn from visible keys
	PInfo       int
	PInfoShare  int // an Info struct is one of two shared slots instead of a fresh struct
	PNilOptArg  int // an op gets a nil / empty argument to an option constructor (FillXInfo(nil), WithXCallback(nil), As())
	PCallback   int
	PCBPanic    int // a callback panics on its first call
	PCBInvoke   int // a callback calls Invoke for a consumer of its function's own keys
	PDefer      int
	PRecover    int
	PHole       int // param for a key nobody provides (universe pick)
	PLate       int // bias towards recently registered keys
	PCycleKeep  int // keep a constructor that closes a cycle in the predicted strict graph

	PreferAvailable bool // "visible" means transitively available in the predicted model
	TwoPhase        bool // registrations first, invocations later
	PSoftSibling    int  // a soft group leaf gets a sibling whose constructor feeds that group (C11)
	PReencode       int  // C15: probability that a function gets an alternative equivalent encoding
	WrapAlt         bool // C15: the alternative encoding only wraps runs of consecutive parameters into (nested) dig.In objects, keeping their order
	PSideKey        int  // a constructor body provides, while it runs, a constructor for a fresh key that later operations may consume
	PSide           int  // a constructor / decorator body calls String, Visualize, Scope, Provide or Decorate (of an unrelated key) on the container
	PReenter        int  // C02: probability that a constructor body calls back into the container
	WDecoSandwich   int  // C12: weight of the compound step "decorate above, resolve from below, decorate in between, resolve again"
	PGroupOptMulti  int  // Group option (and As) on a constructor with several positional results
	PVisAfter       int  // an Invoke is followed by Visualize(VisualizeError(its error))
	PDeepWrap       int  // a parameter / result object is wrapped in 2-4 further objects
	PEmptyTag       int  // object fields carry explicit empty name:"" / group:"" tags
	PNoResult       int  // C15: constructors without results vs. with empty result objects
	PErrPtr         int  // the error result is declared as a concrete type implementing error (such a function always fails)
	PErr2           int  // a second error result (both non-nil when the function fails)
	PReenterDeco    int  // C02: probability that a decorator body calls Invoke (for its own key or others)
	PEmbedPos       int  // the embedded dig.In / dig.Out of a generated object is not its first field
	PNamedSlice     int  // a group parameter / slice-typed group result is declared with a named slice type
	PZeroRes        int  // a single result / group member is returned as the zero value
	PDeclIn         int  // a function gets a declared ignore-unexported parameter object (unexported fields between the exported ones)

	// Case-level switches
	NoDecorators   bool
	NoGroups       bool
	NoFaults       bool
	AvoidDecoCycle bool
}

func DefaultKnobs() Knobs {
	return Knobs{
		MinOps: 3, MaxOps: 22, MaxScopes: 5, MaxDepth: 3, MaxParams: 4, MaxResults: 3,
		Types:  []string{"T0", "T1", "T2", "T3", "T4", "T5", "S0", "SN"},
		Ifaces: []string{"I0", "I1", "I2", "I01"},
		Names:  []string{"a", "b"},
		Groups: []string{"g", "h"},
		WScope: 3, WProvide: 10, WDecorate: 3, WInvoke: 7, WVisualize: 0, WString: 0,
		PAvail: 94, PFresh: 93, POpt: 15, PNamed: 20, PGroupRes: 20, PGroupParam: 20, PSoft: 20, PFlatten: 30,
		PAs: 15, PAsObj: 8, PGroupOptMulti: 4, PDeepWrap: 2, PEmptyTag: 3, PExport: 15, PObjParam: 35, PObjResult: 35, PNest: 30, PErr: 25, PVariadic: 5,
		PFault: 0, PPanic: 30, PDecoSelf: 75, PDecoGroup: 25, PDecoMulti: 20, PDecoExtra: 30,
		PInvokeAll: 96, PInfo: 0, PCallback: 0, PDefer: 15, PRecover: 30, PHole: 40, PLate: 70, PCycleKeep: 5,
		NoFaults: true, AvoidDecoCycle: true, PreferAvailable: true,
		PDeclIn: 6, PZeroRes: 4, PNamedSlice: 7, PEmbedPos: 10,
	}
}

type gen struct {
	decoSlt      map[MKey]string // named slice variant a decorator declared a group with
	reserved     map[MKey]bool   // keys that only a registration made from inside a body provides
	plainDecl    bool            // encode the leaves of declared objects as ordinary leaves (C15's alternative encoding)
	focus        []MKey          // keys of the last deliberately rejected registration
	forceDecoKey *MKey           // genDecorate: first decorated key (genDecoSandwich)
	orphans      []MKey          // keys decorated without being provided (PDecoOrphan)
	t            *rapid.T
	k            Knobs
	m            *Model // predicted registrations
	nextID       int
	c            *Case
	nscope       int
}

func (g *gen) pct(p int, label string) bool {
	if p <= 0 {
		return false
	}
	if p >= 100 {
		return true
	}
	return rapid.IntRange(0, 99).Draw(g.t, label) >= 100-p
}

func (g *gen) pick(n int, label string) int {
	if n <= 1 {
		return 0
	}
	return rapid.IntRange(0, n-1).Draw(g.t, label)
}

func (g *gen) pickStr(xs []string, label string) string { return xs[g.pick(len(xs), label)] }

// universe of single keys
func (g *gen) randType(label string) string {
	n := len(g.k.Types) + len(g.k.Ifaces)
	i := g.pick(n, label)
	if i < len(g.k.Types) {
		return g.k.Types[i]
	}
	return g.k.Ifaces[i-len(g.k.Types)]
}

// universe lists every single-value key of the case's type/name universe.
func (g *gen) universe() []MKey {
	var out []MKey
	for _, n := range append([]string{""}, g.k.Names...) {
		for _, t := range g.k.Types {
			out = append(out, MKey{T: t, Name: n})
		}
		for _, t := range g.k.Ifaces {
			out = append(out, MKey{T: t, Name: n})
		}
	}
	return out
}

func (g *gen) randName(label string) string {
	if len(g.k.Names) == 0 || !g.pct(g.k.PNamed, label+"?") {
		return ""
	}
	return g.pickStr(g.k.Names, label)
}

// visibleKeys lists keys with a provider visible from scope s (single and
// group), in registration order (outermost scope first). With availOnly only
// keys whose value can actually be built (model: transitively available) are
// returned.
func (g *gen) visibleKeys(s int) (singles []MKey, groups []MKey) {
	return g.keysFrom(s, g.k.PreferAvailable)
}

func (g *gen) keysFrom(s int, availOnly bool) (singles []MKey, groups []MKey) {
	seenS := map[MKey]bool{}
	seenG := map[MKey]bool{}
	anc := g.m.Anc(s)
	for i := len(anc) - 1; i >= 0; i-- {
		for _, c := range g.m.Scopes[anc[i]].Ctors {
			for _, k := range c.Keys() {
				if k.Group != "" {
					if !seenG[k] {
						seenG[k] = true
						groups = append(groups, k)
					}
				} else if !seenS[k] {
					seenS[k] = true
					singles = append(singles, k)
				}
			}
		}
	}
	if !availOnly {
		return
	}
	probe := &MFn{ID: -1, Kind: KInvoke, View: s, Home: s, OkExec: -1}
	var s2, g2 []MKey
	for _, k := range singles {
		if g.m.LeafAvailable(probe, MLeaf{Key: k}) {
			s2 = append(s2, k)
		}
	}
	for _, k := range groups {
		if g.m.LeafAvailable(probe, MLeaf{Key: k, IsGroup: true}) {
			g2 = append(g2, k)
		}
	}
	return s2, g2
}

// pickLate picks an index biased towards the end of a list of n items (later
// registrations tend to have deeper dependency closures).
func (g *gen) pickLate(n int, label string) int {
	a := g.pick(n, label)
	if g.pct(g.k.PLate, label+"late") {
		if b := g.pick(n, label+"2"); b > a {
			a = b
		}
	}
	return a
}

type pleaf struct {
	key      MKey
	opt      bool
	soft     bool
	withPrev bool   // placed in the same parameter object as the previous leaf
	slt      string // named slice type variant of a group leaf
	// leaf declI of declN of one declared parameter object (types.go)
	decl         string
	declI, declN int
}

// declLeaves draws a declared ignore-unexported parameter object, mostly one
// whose required single keys are visible from s.
func (g *gen) declLeaves(singles []MKey) []pleaf {
	has := map[MKey]bool{}
	for _, k := range singles {
		has[k] = true
	}
	var good []string
	var usable []string
	for _, n := range DeclInNames {
		ok, allowed := true, true
		for _, l := range leavesOf([]Param{DeclParam(n)}) {
			if !l.IsGroup && !l.Opt && !has[l.Key] {
				ok = false
			}
			if l.Soft && g.k.PSoft == 0 {
				allowed = false
			}
		}
		if !allowed {
			continue
		}
		usable = append(usable, n)
		if ok {
			good = append(good, n)
		}
	}
	from := usable
	if len(good) > 0 && g.pct(g.k.PAvail, "declavail") {
		from = good
	}
	n := g.pickStr(from, "decl")
	ls := leavesOf([]Param{DeclParam(n)})
	var out []pleaf
	for i, l := range ls {
		out = append(out, pleaf{key: l.Key, opt: l.Opt, soft: l.Soft, decl: n, declI: i, declN: len(ls)})
	}
	return out
}

// drawParamLeaves draws n parameter leaves for a function viewing from s.
func (g *gen) drawParamLeaves(s, n int, pAvail int, allowGroups bool) []pleaf {
	singles, groups := g.visibleKeys(s)
	var out []pleaf
	for i := 0; i < n; i++ {
		lbl := fmt.Sprintf("p%d", i)
		var l pleaf
		if len(g.orphans) > 0 && g.pct(15, lbl+"orphanask") {
			l.key = g.orphans[g.pick(len(g.orphans), lbl+"ok")]
			if l.key.Group == "" {
				l.opt = g.pct(g.k.POpt, lbl+"oopt")
			}
			out = append(out, l)
			continue
		}
		if len(g.focus) > 0 && g.pct(g.k.PFocus, lbl+"focus") {
			l.key = g.focus[g.pick(len(g.focus), lbl+"fk")]
			if l.key.Group != "" {
				l.soft = g.pct(g.k.PSoft, lbl+"soft")
			} else {
				l.opt = g.pct(g.k.POpt, lbl+"opt")
			}
			out = append(out, l)
			continue
		}
		fromVisible := g.pct(pAvail, lbl+"avail")
		wantGroup := allowGroups && !g.k.NoGroups && g.pct(g.k.PGroupParam, lbl+"grp")
		switch {
		case wantGroup && fromVisible && len(groups) > 0:
			l.key = groups[g.pickLate(len(groups), lbl+"gk")]
		case wantGroup && len(g.k.Groups) > 0:
			l.key = MKey{T: g.randType(lbl + "gt"), Group: g.pickStr(g.k.Groups, lbl+"gn")}
		case fromVisible && len(singles) > 0:
			l.key = singles[g.pickLate(len(singles), lbl+"sk")]
		default:
			if !g.pct(g.k.PHole, lbl+"hole") && len(singles) > 0 {
				l.key = singles[g.pickLate(len(singles), lbl+"sk2")]
			} else {
				l.key = MKey{T: g.randType(lbl + "t"), Name: g.randName(lbl + "n")}
			}
		}
		if l.key.Group != "" {
			l.soft = g.pct(g.k.PSoft, lbl+"soft")
			if g.pct(g.k.PNamedSlice, lbl+"nsl") {
				l.slt = g.pickStr([]string{"A", "B"}, lbl+"nslv")
			}
			if v, ok := g.decoSlt[l.key]; ok && g.k.PNamedSlice > 0 && g.pct(50, lbl+"nslother") {
				// a decorator declares this group with a named slice type:
				// consume it with the other one
				l.slt = map[string]string{"A": "B", "B": "A"}[v]
			}
		} else {
			l.opt = g.pct(g.k.POpt, lbl+"opt")
		}
		out = append(out, l)
		if l.soft && g.pct(g.k.PSoftSibling, lbl+"softsib") {
			// add, after the soft leaf, a dependency on a constructor that
			// also feeds this group
			var sib []MKey
			for _, a := range g.m.Anc(s) {
				for _, c := range g.m.Scopes[a].Ctors {
					if c.SlotFor(l.key) < 0 {
						continue
					}
					for _, k := range c.Keys() {
						if k.Group == "" {
							sib = append(sib, k)
						}
					}
				}
			}
			if len(sib) > 0 {
				out = append(out, pleaf{key: sib[g.pick(len(sib), lbl+"sibk")], withPrev: true})
			}
		}
	}
	if n > 0 && allowGroups && !g.k.NoGroups && g.pct(g.k.PDeclIn, "declin") {
		out = append(out, g.declLeaves(singles)...)
	}
	return out
}

func (l pleaf) param() Param {
	p := Param{T: l.key.T, Name: l.key.Name, Opt: l.opt, Group: l.key.Group, Soft: l.soft, SlT: l.slt}
	return p
}

func (l pleaf) needsObj() bool { return l.key.Name != "" || l.opt || l.key.Group != "" }

// encodeParams folds leaves into positional parameters and In objects.
// pruneDecl drops runs of declared-object leaves that a caller cut short.
func pruneDecl(leaves []pleaf) []pleaf {
	var out []pleaf
	for i := 0; i < len(leaves); i++ {
		l := leaves[i]
		if l.decl == "" {
			out = append(out, l)
			continue
		}
		if l.declI == 0 && i+l.declN <= len(leaves) && leaves[i+l.declN-1].decl == l.decl && leaves[i+l.declN-1].declI == l.declN-1 {
			out = append(out, leaves[i:i+l.declN]...)
			i += l.declN - 1
		}
	}
	return out
}

func (g *gen) encodeParams(leaves []pleaf) []Param {
	leaves = pruneDecl(leaves)
	var out []Param
	var objs [][]Param
	lastObj := -1
	for i, l := range leaves {
		lbl := fmt.Sprintf("enc%d", i)
		if l.decl != "" && !g.plainDecl {
			// a complete run of the leaves of one declared object becomes
			// that object
			if l.declI == 0 {
				dp := DeclParam(l.decl)
				if g.pct(30, lbl+"declwrap") {
					dp = Param{IsObj: true, Obj: []Param{dp}}
				}
				out = append(out, dp)
			}
			lastObj = -1
			continue
		}
		if l.withPrev && lastObj >= 0 {
			objs[lastObj] = append(objs[lastObj], l.param())
			continue
		}
		lastObj = -1
		if l.needsObj() || g.pct(g.k.PObjParam, lbl+"obj") {
			// choose an object (existing or new)
			oi := g.pick(len(objs)+1, lbl+"which")
			lastObj = oi
			if oi == len(objs) {
				objs = append(objs, nil)
				out = append(out, Param{IsObj: true, T: fmt.Sprintf("#%d", oi)})
			}
			objs[oi] = append(objs[oi], l.param())
		} else {
			out = append(out, l.param())
		}
	}
	// materialise objects, with optional nesting
	for i := range out {
		if out[i].IsObj && len(out[i].T) > 0 && out[i].T[0] == '#' {
			var oi int
			fmt.Sscanf(out[i].T, "#%d", &oi)
			fields := objs[oi]
			out[i] = g.nestParams(fields, fmt.Sprintf("nest%d", oi), 0)
		}
	}
	return out
}

// wrapParams folds a run of consecutive parameters into a dig.In object
// (once or twice), keeping the order of all leaves.
func (g *gen) wrapParams(ps []Param) []Param {
	out := append([]Param(nil), ps...)
	for round := 0; round < 2 && len(out) > 0; round++ {
		if round == 1 && !g.pct(40, "wrap2") {
			break
		}
		i := g.pick(len(out), fmt.Sprintf("wrapi%d", round))
		j := i + g.pick(len(out)-i, fmt.Sprintf("wrapj%d", round))
		w := Param{IsObj: true, Obj: append([]Param(nil), out[i:j+1]...)}
		out = append(append(append([]Param(nil), out[:i]...), w), out[j+1:]...)
	}
	return out
}

// encodeParamsAlt: the alternative encoding of C15 mostly spells the fields
// of a declared ignore-unexported object out as ordinary parameters.
func (g *gen) encodeParamsAlt(leaves []pleaf) []Param {
	hasDecl := false
	for _, l := range leaves {
		if l.decl != "" {
			hasDecl = true
		}
	}
	if hasDecl && g.pct(70, "altplaindecl") {
		g.plainDecl = true
		defer func() { g.plainDecl = false }()
	}
	return g.encodeParams(leaves)
}

func (g *gen) nestParams(fields []Param, lbl string, depth int) Param {
	if depth < 2 && len(fields) >= 1 && g.pct(g.k.PNest, lbl+"n") {
		// split off a suffix into a nested object placed at a random position
		cut := g.pick(len(fields), lbl+"cut")
		inner := g.nestParams(append([]Param(nil), fields[cut:]...), lbl+"i", depth+1)
		outer := append([]Param(nil), fields[:cut]...)
		pos := g.pick(len(outer)+1, lbl+"pos")
		outer = append(outer[:pos], append([]Param{inner}, outer[pos:]...)...)
		return Param{IsObj: true, Obj: outer}
	}
	po := Param{IsObj: true, Obj: fields}
	if g.pct(g.k.PEmbedPos, lbl+"embed") {
		po.EmbedAt = 1 + g.pick(len(fields)+1, lbl+"embedat")
	}
	if g.pct(g.k.PEmptyTag, lbl+"et") {
		for i := range po.Obj {
			if !po.Obj[i].isObj() && po.Obj[i].Tag == "" && po.Obj[i].Decl == "" && g.pct(60, fmt.Sprintf("%set%d", lbl, i)) {
				po.Obj[i].ET = true
			}
		}
	}
	if depth == 0 && g.pct(g.k.PDeepWrap, lbl+"deep") {
		for d, n := 0, 2+g.pick(3, lbl+"deepn"); d < n; d++ {
			po = Param{IsObj: true, Obj: []Param{po}}
		}
	}
	return po
}

type rleaf struct {
	rep     bool
	slt     string
	zero    bool
	key     MKey
	impl    string
	flatten bool
	n       int
	nilsl   bool
	slice   bool
}

func (l rleaf) result() Result {
	return Result{T: l.key.T, Impl: l.impl, Name: l.key.Name, Group: l.key.Group, Flatten: l.flatten, N: l.n, Nil: l.nilsl, Slice: l.slice, Zero: l.zero, SlT: l.slt, Rep: l.rep}
}

func (g *gen) encodeResults(leaves []rleaf, forceObj bool) []Result {
	var out []Result
	var objFields []Result
	objAt := -1
	for i, l := range leaves {
		lbl := fmt.Sprintf("renc%d", i)
		needs := l.key.Name != "" || l.key.Group != "" || forceObj
		if needs || g.pct(g.k.PObjResult, lbl+"obj") {
			if objAt < 0 {
				objAt = len(out)
				out = append(out, Result{IsObj: true})
			}
			objFields = append(objFields, l.result())
		} else {
			out = append(out, l.result())
		}
	}
	if objAt >= 0 {
		out[objAt] = g.nestResults(objFields, "rnest", 0)
	}
	return out
}

func (g *gen) nestResults(fields []Result, lbl string, depth int) Result {
	if depth < 2 && len(fields) >= 1 && g.pct(g.k.PNest, lbl+"n") {
		cut := g.pick(len(fields), lbl+"cut")
		inner := g.nestResults(append([]Result(nil), fields[cut:]...), lbl+"i", depth+1)
		outer := append([]Result(nil), fields[:cut]...)
		pos := g.pick(len(outer)+1, lbl+"pos")
		outer = append(outer[:pos], append([]Result{inner}, outer[pos:]...)...)
		return Result{IsObj: true, Obj: outer}
	}
	ro := Result{IsObj: true, Obj: fields}
	if g.pct(g.k.PEmbedPos, lbl+"embed") {
		ro.EmbedAt = 1 + g.pick(len(fields)+1, lbl+"embedat")
	}
	if g.pct(g.k.PEmptyTag, lbl+"et") {
		for i := range ro.Obj {
			if !ro.Obj[i].isObj() && ro.Obj[i].Tag == "" && g.pct(60, fmt.Sprintf("%set%d", lbl, i)) {
				ro.Obj[i].ET = true // explicit name:"" / group:"" tags: the same as none
			}
		}
	}
	if depth == 0 && g.pct(g.k.PDeepWrap, lbl+"deep") {
		// the same fields several result objects further down
		for d, n := 0, 2+g.pick(3, lbl+"deepn"); d < n; d++ {
			ro = Result{IsObj: true, Obj: []Result{ro}}
		}
	}
	return ro
}

func (g *gen) newFn() *Fn {
	g.nextID++
	return &Fn{ID: g.nextID}
}

func (g *gen) faults(f *Fn) {
	if f.ErrT == "ptr" {
		return // fails on every execution already
	}
	if g.k.NoFaults || !g.pct(g.k.PFault, "fault?") {
		return
	}
	n := rapid.IntRange(1, 3).Draw(g.t, "nfaults")
	for i := 0; i < n; i++ {
		var o int
		if g.pct(g.k.PPanic, "panic?") {
			o = FaultPanic
		} else {
			o = FaultError
			f.Err = true
		}
		// an occasional ok in the middle
		if i > 0 && g.pct(25, "okmid") {
			o = FaultOK
		}
		f.Faults = append(f.Faults, o)
	}
	if g.pct(g.k.PFaultKind, "faultkind") {
		f.EK = g.pick(3, "ek")
		f.PK = g.pick(8, "pk")
	}
}

func (g *gen) errAndVariadic(f *Fn) {
	if g.pct(g.k.PErr, "err?") {
		f.Err = true
		if g.pct(20, "errpos?") {
			f.ErrAt = 1 + g.pick(len(f.R)+1, "errat")
		}
		if g.pct(12, "errt") {
			f.ErrT = "iface"
		}
		if g.pct(g.k.PErr2, "err2") {
			f.Err2 = true
		}
		if !g.k.NoFaults && g.pct(g.k.PErrPtr, "errptr") {
			f.ErrT = "ptr" // error result declared as a concrete type: the function always fails
			f.Faults = []int{FaultError, FaultError, FaultError, FaultError, FaultError, FaultError, FaultError, FaultError}
		}
	}
	if g.pct(g.k.PVariadic, "variadic?") {
		f.Var = g.pickStr(g.k.Types, "vart")
	}
}

// ---------------------------------------------------------------------------

func (g *gen) genProvide(s int) Op {
	if g.pct(g.k.PNoResult, "noresult") {
		// a function that provides nothing (no results, or only an error),
		// and the same written with empty result objects: both are rejected
		f := g.newFn()
		f.P = g.encodeParams(g.drawParamLeaves(s, g.pick(3, "nrp"), 95, true))
		f.Err = g.pct(50, "nrerr")
		af := &Fn{ID: f.ID, P: f.P, Err: f.Err}
		af.R = []Result{{IsObj: true}}
		switch g.pick(3, "nrshape") {
		case 1:
			af.R = []Result{{IsObj: true}, {IsObj: true}}
		case 2:
			af.R = []Result{{IsObj: true, Obj: []Result{{IsObj: true}}}}
		}
		g.setAlt(len(g.c.Ops), af, nil)
		return Op{K: OpProvide, S: s, F: f}
	}
	if g.pct(g.k.PEmptyGroup, "emptygroup") {
		// a value group without a name would share its key with the plain
		// unnamed value of the element type
		f := g.newFn()
		switch g.pick(4, "egkind") {
		case 3:
			// a value-group parameter without a name
			f.R = []Result{{T: g.pickStr(g.k.Types, "gpt")}}
			bad := Param{T: g.pickStr(g.k.Types, "gppt"), Group: "x", Tag: g.pickStr([]string{`group:",soft"`, `group:","`, `group:",soft,soft"`}, "gptag")}
			f.P = []Param{{IsObj: true, Obj: []Param{bad}}}
			return Op{K: OpProvide, S: s, F: f}
		case 0:
			// a result that is declared named *and* grouped (tags of one
			// result-object field): named, unnamed and grouped values are
			// distinct keys, one result cannot be two of them
			r := Result{T: g.pickStr(g.k.Types, "ngt"), Name: g.pickStr(g.k.Names, "ngn"), Group: g.pickStr(g.k.Groups, "ngg")}
			if g.pct(60, "ngflat") {
				r.Slice, r.Flatten, r.N = true, true, 1+g.pick(2, "ngnn")
			}
			obj := []Result{r}
			if g.pct(40, "nggood") {
				obj = append(obj, Result{T: g.pickStr(g.k.Types, "nggt")})
			}
			f.R = []Result{{IsObj: true, Obj: obj}}
			return Op{K: OpProvide, S: s, F: f}
		case 1:
			// the same through options
			f.R = []Result{{T: g.pickStr(g.k.Types, "ngot")}}
			return Op{K: OpProvide, S: s, F: f, O: &Opts{Name: g.pickStr(g.k.Names, "ngon"), Group: g.pickStr(g.k.Groups, "ngog")}}
		}
		f.R = []Result{{T: g.pickStr(g.k.Types, "egt"), Slice: true, N: 1 + g.pick(2, "egn")}}
		return Op{K: OpProvide, S: s, F: f, O: &Opts{Group: g.pickStr([]string{",flatten", ",flatten,flatten"}, "egv")}}
	}
	f := g.newFn()
	o := &Opts{}
	export := s != 0 && g.pct(g.k.PExport, "export")
	o.Export = export
	if !export && g.k.PExport > 0 && g.pct(8, "exportfalse") {
		o.ExportFalse = true // explicit Export(false): no effect
	}
	home := s
	if export {
		home = 0
	}
	nres := 1 + g.pick(g.k.MaxResults, "nres")
	// Option-level shapes for single-result constructors
	useAs, useNameOpt, useGroupOpt := false, false, false
	if nres == 1 {
		switch {
		case g.pct(g.k.PAs, "as?"):
			useAs = true
		}
	}
	var rl []rleaf
	usedHere := map[MKey]bool{}
	for i := 0; i < nres; i++ {
		lbl := fmt.Sprintf("r%d", i)
		var l rleaf
		isGroup := !g.k.NoGroups && len(g.k.Groups) > 0 && g.pct(g.k.PGroupRes, lbl+"grp")
		if len(g.focus) > 0 && g.pct(g.k.PFocus, lbl+"focus") {
			l.key = g.focus[g.pick(len(g.focus), lbl+"fk")]
			if isIface(l.key.T) {
				l.impl = g.pickStr(Impls[l.key.T], lbl+"impl")
			}
			if l.key.Group == "" && usedHere[l.key] {
				l.key = MKey{T: l.key.T, Name: "zz" + fmt.Sprint(i)}
			}
			usedHere[l.key] = true
			rl = append(rl, l)
			continue
		}
		if isGroup {
			// group members may be of interface type too
			t := g.randType(lbl + "t")
			l.key = MKey{T: t, Group: g.pickStr(g.k.Groups, lbl+"gn")}
			if isIface(t) {
				l.impl = g.pickStr(Impls[t], lbl+"impl")
			}
			if g.pct(g.k.PFlatten, lbl+"flat") {
				l.flatten = true
				l.n = g.pick(4, lbl+"n")
				l.nilsl = l.n == 0 && g.pct(50, lbl+"nil")
				l.rep = l.n >= 2 && g.pct(12, lbl+"rep")
				if g.pct(g.k.PNamedSlice, lbl+"nsl") {
					l.slt = g.pickStr([]string{"A", "B"}, lbl+"nslv")
				}
			}
		} else {
			// single key: mostly a fresh one
			var fresh []MKey
			for _, k := range g.universe() {
				if usedHere[k] || g.reserved[k] {
					continue
				}
				taken := false
				for _, c := range g.m.Scopes[home].Ctors {
					if c.SlotFor(k) >= 0 {
						taken = true
					}
				}
				if !taken {
					fresh = append(fresh, k)
				}
			}
			var shadow []MKey
			if g.k.PShadow > 0 && home != 0 {
				for _, a := range g.m.Anc(home)[1:] {
					for _, c := range g.m.Scopes[a].Ctors {
						for _, k := range c.Keys() {
							if k.Group == "" && !usedHere[k] {
								shadow = append(shadow, k)
							}
						}
					}
				}
			}
			if len(shadow) > 0 && g.pct(g.k.PShadow, lbl+"shadow") {
				l.key = shadow[g.pickLate(len(shadow), lbl+"shk")]
			} else if len(fresh) > 0 && g.pct(g.k.PFresh, lbl+"fresh") {
				l.key = fresh[g.pick(len(fresh), lbl+"fk")]
			} else {
				l.key = MKey{T: g.randType(lbl + "t"), Name: g.randName(lbl + "n")}
			}
			if isIface(l.key.T) {
				l.impl = g.pickStr(Impls[l.key.T], lbl+"impl")
			}
			usedHere[l.key] = true
		}
		l.zero = g.pct(g.k.PZeroRes, lbl+"zero") // flatten: the first element is zero
		rl = append(rl, l)
	}
	multiGroupOpt := false
	if nres >= 2 && !g.k.NoGroups && len(g.k.Groups) > 0 && g.pct(g.k.PGroupOptMulti, "groupoptmulti") {
		// Group option on a constructor with several positional results:
		// every result becomes a member (under its own type, or under the
		// interfaces of an As list that all of them implement)
		multiGroupOpt = true
		grp := g.pickStr(g.k.Groups, "gomg")
		for i := range rl {
			rl[i] = rleaf{key: MKey{T: rl[i].key.T, Group: grp}, impl: rl[i].impl, zero: rl[i].zero}
		}
		o.Group = grp
		if g.pct(65, "gomas") {
			var cands []string
			for _, i := range g.k.Ifaces {
				ok := true
				for _, l := range rl {
					if l.key.T != i && !implements(l.key.T, i) {
						ok = false
					}
				}
				if ok {
					cands = append(cands, i)
				}
			}
			if len(cands) > 0 {
				n := 1 + g.pick(len(cands), "gomn")
				if n > 3 {
					n = 3
				}
				start := g.pick(len(cands), "gomi")
				for j := 0; j < n; j++ {
					o.As = append(o.As, cands[(start+j)%len(cands)])
				}
			}
		}
		useAs = false
	}
	if useAs {
		// As needs a concrete result implementing interfaces
		l := &rl[0]
		if (isIface(l.key.T) && l.key.T != "I01") || len(IfacesOf[l.key.T]) == 0 || l.flatten {
			useAs = false
		} else {
			ifs := IfacesOf[l.key.T]
			n := 1 + g.pick(len(ifs), "nas")
			start := g.pick(len(ifs), "as0")
			for j := 0; j < n; j++ {
				o.As = append(o.As, ifs[(start+j)%len(ifs)])
			}
		}
	}
	if nres == 1 && !rl[0].flatten {
		// single result: name / group may be given by option instead of tag
		if rl[0].key.Name != "" && g.pct(50, "nameopt") {
			useNameOpt = true
		}
		if rl[0].key.Group != "" && g.pct(50, "groupopt") {
			useGroupOpt = true
		}
	}
	if nres == 1 && rl[0].flatten && g.pct(50, "groupoptflat") {
		useGroupOpt = true
	}
	if useAs && (rl[0].key.Name != "" || rl[0].key.Group != "") {
		// As works on positional results only: need the option forms
		if rl[0].key.Name != "" {
			useNameOpt = true
		} else {
			useGroupOpt = true
		}
	}
	if !multiGroupOpt && !useAs && !useNameOpt && !useGroupOpt && g.pct(g.k.PAsObj, "asobj") {
		// dig threads the As option into every non-group result, also
		// inside result objects: pick interfaces all of them implement
		var cands []string
		for _, i := range g.k.Ifaces {
			ok, any := true, false
			for _, l := range rl {
				if l.key.Group != "" {
					continue
				}
				any = true
				if l.key.T != i && !implements(l.key.T, i) {
					ok = false
				}
			}
			if ok && any {
				cands = append(cands, i)
			}
		}
		if len(cands) > 0 {
			// one to three of them, in any order (a result whose own type is
			// listed keeps that type out of its own As set only)
			n := 1 + g.pick(len(cands), "asobjn")
			if n > 3 {
				n = 3
			}
			start := g.pick(len(cands), "asobji")
			o.As = nil
			for j := 0; j < n; j++ {
				o.As = append(o.As, cands[(start+j)%len(cands)])
			}
			// keys change: keep the predicted model right by rebuilding below
		}
	}
	if multiGroupOpt {
		f.R = nil
		for _, l := range rl {
			r := l.result()
			r.Group = ""
			f.R = append(f.R, r)
		}
	} else if useNameOpt || useGroupOpt || useAs {
		l := rl[0]
		r := l.result()
		if useNameOpt {
			o.Name = l.key.Name
			r.Name = ""
		}
		if useGroupOpt {
			o.Group = l.key.Group
			if l.flatten {
				o.Group += ",flatten"
			}
			r.Group = ""
			r.Slice = l.flatten
			r.Flatten = false
		}
		f.R = []Result{r}
	} else {
		f.R = g.encodeResults(rl, false)
	}
	npar := g.pick(g.k.MaxParams+1, "npar")
	pl := g.drawParamLeaves(s, npar, g.k.PAvail, true)
	if !g.pct(g.k.PCycleKeep, "cyclekeep") {
		// drop parameters until the predicted (strict, dig-like) graph is
		// acyclic; a constructor without parameters cannot close a cycle
		for len(pl) > 0 {
			probe := NewMFn(&Fn{ID: f.ID, R: f.R}, o, KCtor, s)
			for _, l := range pl {
				probe.Leaves = append(probe.Leaves, MLeaf{Key: l.key, Opt: l.opt, Soft: l.soft, IsGroup: l.key.Group != ""})
			}
			if !g.m.DigCycle(probe) {
				break
			}
			pl = pl[:len(pl)-1]
		}
	}
	if g.k.AvoidDecoCycle {
		// a constructor must not close a resolution cycle through a
		// decorator (known finding KF-DECO-CYCLE): drop parameters until
		// it does not
		for len(pl) > 0 {
			probe := NewMFn(&Fn{ID: f.ID, R: f.R}, o, KCtor, s)
			for _, l := range pl {
				probe.Leaves = append(probe.Leaves, MLeaf{Key: l.key, Opt: l.opt, Soft: l.soft, IsGroup: l.key.Group != ""})
			}
			if g.m.DupProvide(probe) != "" {
				break
			}
			g.m.AddCtor(probe)
			bad := g.anyDecoCycle()
			g.removeCtor(probe)
			if !bad {
				break
			}
			pl = pl[:len(pl)-1]
		}
	}
	f.P = g.encodeParams(pl)
	g.errAndVariadic(f)
	g.faults(f)
	if g.pct(g.k.PSide, "side") {
		f.Side = g.pickStr([]string{"string", "visualize", "scope", "provide", "decorate"}, "sidek")
		f.SideS = g.pickScope("sides")
	}
	if f.Side == "" && g.pct(g.k.PSideKey, "sidekey") {
		// a fresh key: provided nowhere, consumed by nobody so far
		used := map[MKey]bool{}
		for _, sc := range g.m.Scopes {
			for _, c := range sc.Ctors {
				for _, k := range c.Keys() {
					used[k] = true
				}
				for _, l := range c.Leaves {
					used[l.Key] = true
				}
			}
			for _, d := range sc.DecoL {
				for _, k := range d.Keys() {
					used[k] = true
				}
				for _, l := range d.Leaves {
					used[l.Key] = true
				}
			}
		}
		for _, k := range rl {
			used[k.key] = true
		}
		for _, l := range pl {
			used[l.key] = true
		}
		var fresh []MKey
		for _, k := range g.universe() {
			if !used[k] && !g.reserved[k] && !isIface(k.T) {
				fresh = append(fresh, k)
			}
		}
		if len(fresh) > 0 {
			k := fresh[g.pick(len(fresh), "sidekeyk")]
			if g.reserved == nil {
				g.reserved = map[MKey]bool{}
			}
			g.reserved[k] = true
			sf := g.newFn()
			sf.R = g.encodeResults([]rleaf{{key: k}}, false)
			f.Side, f.SideS, f.SideFn = "provide-key", g.pickScope("sidekeys"), sf
			// later operations may ask for the key (a hole until the body ran)
			g.m.AddCtor(NewMFn(sf, nil, KCtor, f.SideS))
		}
	}
	if g.pct(g.k.PReenter, "reenter") {
		// the body demands, from a random scope, its own first key or keys
		// visible there
		rs := g.pickScope("rs")
		var rl2 []pleaf
		if g.pct(50, "reown") && rl[0].key.Group == "" {
			rl2 = append(rl2, pleaf{key: rl[0].key})
		} else {
			rl2 = g.drawParamLeaves(rs, 1+g.pick(2, "rn"), 90, true)
		}
		f.Reenter = &Reenter{S: rs, P: g.encodeParams(rl2)}
	}
	if g.pct(g.k.PInfo, "info") {
		o.Info = true
		o.InfoSlot = g.infoSlot()
	}
	if g.pct(g.k.PCallback, "cb") {
		o.CB = true
		o.CBPanic = g.pct(g.k.PCBPanic, "cbpanic")
	}
	if len(o.As) >= 1 && g.pct(12, "asnil") {
		o.AsNil = true
	}
	if len(o.As) >= 2 && g.pct(30, "assplit") {
		o.AsSplit = true
	}
	op := Op{K: OpProvide, S: s, F: f}
	if g.pct(g.k.PNilOptArg, "niloptarg") {
		switch g.pick(3, "nilopt") {
		case 0:
			o.InfoNil = true
		case 1:
			o.CBNil = true
		default:
			o.AsEmpty = len(o.As) == 0
		}
	}
	if o.Name != "" || o.Group != "" || len(o.As) > 0 || o.Export || o.ExportFalse || o.Info || o.CB || o.InfoNil || o.CBNil || o.AsEmpty {
		op.O = o
	}
	if g.pct(g.k.PReencode, "reenc") {
		af := &Fn{ID: f.ID, Err: f.Err, ErrT: f.ErrT, ErrAt: f.ErrAt, Var: f.Var, Faults: f.Faults, EK: f.EK, PK: f.PK, Dur: f.Dur}
		ao := *o
		af.P = g.encodeParamsAlt(pl)
		switch {
		case g.k.WrapAlt:
			af.P = g.wrapParams(f.P)
			af.R = f.R
		case useAs || (multiGroupOpt && len(o.As) > 0):
			af.R = f.R // As needs the positional/option form
		case multiGroupOpt:
			// Group option on several results -> a group tag on each field
			ao.Group = ""
			af.R = g.encodeResults(rl, false)
			g.labelAlt("opt-tag-move")
		case useNameOpt || useGroupOpt:
			// option form -> tag form
			ao.Name, ao.Group = "", ""
			af.R = g.encodeResults(rl, false)
		case nres == 1 && (rl[0].key.Name != "" || rl[0].key.Group != ""):
			// tag form -> option form
			l := rl[0]
			r := l.result()
			if l.key.Name != "" {
				ao.Name, r.Name = l.key.Name, ""
			} else {
				ao.Group = l.key.Group
				if l.flatten {
					ao.Group += ",flatten"
				}
				r.Group, r.Slice, r.Flatten = "", l.flatten, false
			}
			af.R = []Result{r}
			g.labelAlt("opt-tag-move")
		default:
			af.R = g.encodeResults(rl, g.pct(50, "forceobj"))
		}
		if useNameOpt || useGroupOpt {
			g.labelAlt("opt-tag-move")
		}
		if af.Var == "" && g.pct(40, "addvar") {
			af.Var = g.pickStr(g.k.Types, "avart")
		}
		g.setAlt(len(g.c.Ops), af, &ao)
	}
	// keep the predicted model in step
	mf := NewMFn(f, op.O, KCtor, s)
	if o.CB && !o.CBPanic && g.pct(g.k.PCBInvoke, "cbinvoke") {
		o.CBInvoke = g.cbInvokeFor(mf)
	}
	if g.m.DupProvide(mf) == "" {
		g.m.AddCtor(mf)
	}
	return op
}

// cbInvokeFor: a consumer of one of mf's own keys, invoked from mf's callback
// in mf's home scope or below it.
func (g *gen) cbInvokeFor(mf *MFn) *Reenter {
	ks := mf.Keys()
	if len(ks) == 0 {
		return nil
	}
	k := ks[g.pick(len(ks), "cbik")]
	sc := mf.Home
	if g.pct(40, "cbibelow") {
		if sub := g.m.Subtree(mf.Home); len(sub) > 0 {
			sc = sub[g.pick(len(sub), "cbis")]
		}
	}
	l := pleaf{key: k}
	if k.Group != "" {
		l.soft = g.pct(g.k.PSoft, "cbisoft")
	}
	return &Reenter{S: sc, P: g.encodeParams([]pleaf{l})}
}

func (g *gen) genDecorate(s int) (Op, bool) {
	singles, groups := g.visibleKeys(s)
	if g.k.NoGroups {
		groups = nil
	}
	if len(singles)+len(groups) == 0 && g.k.PDecoOrphan == 0 {
		return Op{}, false
	}
	f := g.newFn()
	var pl []pleaf
	var rl []rleaf
	orphan := false
	nkeys := 1
	if g.pct(g.k.PDecoMulti, "multi") {
		nkeys = 2
	}
	used := map[MKey]bool{}
	for i := 0; i < nkeys; i++ {
		lbl := fmt.Sprintf("d%d", i)
		var k MKey
		if i == 0 && g.forceDecoKey != nil {
			k = *g.forceDecoKey
		} else if g.pct(g.k.PDecoOrphan, lbl+"orphan") {
			u := g.universe()
			k = u[g.pick(len(u), lbl+"ok")]
			if !g.k.NoGroups && len(g.k.Groups) > 0 && g.pct(35, lbl+"orphangrp") {
				// a group that nothing feeds (perhaps nothing consumes either)
				k = MKey{T: g.randType(lbl + "ogt"), Group: g.pickStr(g.k.Groups, lbl+"ogn")}
			}
			orphan = true
			g.orphans = append(g.orphans, k) // later operations ask for it
		} else if len(groups) > 0 && (len(singles) == 0 || g.pct(g.k.PDecoGroup, lbl+"grp")) {
			k = groups[g.pick(len(groups), lbl+"gk")]
		} else if len(singles) > 0 {
			k = singles[g.pick(len(singles), lbl+"sk")]
		} else {
			continue
		}
		if used[k] {
			continue
		}
		used[k] = true
		if k.Group != "" {
			l := rleaf{key: k, slice: true, n: g.pick(4, lbl+"n")}
			if isIface(k.T) {
				l.impl = g.pickStr(Impls[k.T], lbl+"impl")
			}
			l.zero = g.pct(g.k.PZeroRes, lbl+"zero")
			if g.pct(g.k.PNamedSlice*3, lbl+"nsl") {
				l.slt = g.pickStr([]string{"A", "B"}, lbl+"nslv")
				if g.decoSlt == nil {
					g.decoSlt = map[MKey]string{}
				}
				g.decoSlt[k] = l.slt
			}
			rl = append(rl, l)
			if g.pct(g.k.PDecoSelf, lbl+"self") {
				sp := pleaf{key: k}
				if g.pct(g.k.PNamedSlice*3, lbl+"nslp") {
					sp.slt = g.pickStr([]string{"A", "B"}, lbl+"nslpv")
				}
				pl = append(pl, sp)
			}
		} else {
			l := rleaf{key: k}
			if isIface(k.T) {
				l.impl = g.pickStr(Impls[k.T], lbl+"impl")
			}
			l.zero = g.pct(g.k.PZeroRes, lbl+"zero")
			rl = append(rl, l)
			if g.pct(g.k.PDecoSelf, lbl+"self") {
				pl = append(pl, pleaf{key: k})
			}
		}
	}
	if len(rl) == 0 {
		return Op{}, false
	}
	if g.pct(g.k.PDecoExtra, "extra") {
		extra := g.drawParamLeaves(s, 1+g.pick(2, "nextra"), 95, true)
		for _, e := range extra {
			if used[e.key] {
				continue
			}
			pl = append(pl, e)
		}
	}
	f.P = g.encodeParams(pl)
	f.R = g.encodeResults(rl, false)
	g.errAndVariadic(f)
	g.faults(f)
	if orphan && len(f.Faults) == 0 && !g.k.NoFaults && g.k.PFault > 0 && g.pct(30, "orphanfault") {
		// a failing decorator of a key that nothing provides
		f.Err = true
		f.Faults = []int{FaultError}
	}
	if g.pct(g.k.PReenterDeco, "reenterdeco") {
		rs := g.pickScope("drs")
		var rl2 []pleaf
		if g.pct(40, "dreown") && rl[0].key.Group == "" {
			rl2 = append(rl2, pleaf{key: rl[0].key})
		} else {
			rl2 = g.drawParamLeaves(rs, 1+g.pick(2, "drn"), 95, true)
		}
		f.Reenter = &Reenter{S: rs, P: g.encodeParams(rl2)}
	}
	if g.pct(g.k.PSide, "side") {
		f.Side = g.pickStr([]string{"string", "visualize", "scope", "provide", "decorate"}, "sidek")
		f.SideS = g.pickScope("sides")
	}
	var altF *Fn
	if g.pct(g.k.PReencode, "reenc") {
		af := &Fn{ID: f.ID, Err: f.Err, ErrT: f.ErrT, ErrAt: f.ErrAt, Var: f.Var, Faults: f.Faults, EK: f.EK, PK: f.PK, Dur: f.Dur}
		af.P = g.encodeParamsAlt(pl)
		af.R = g.encodeResults(rl, g.pct(50, "forceobj"))
		if g.k.WrapAlt {
			af.P, af.R = g.wrapParams(f.P), f.R
		}
		if af.Var == "" && g.pct(40, "addvar") {
			af.Var = g.pickStr(g.k.Types, "avart")
		}
		altF = af
	}
	op := Op{K: OpDecorate, S: s, F: f}
	o := &Opts{}
	if g.pct(g.k.PInfo, "info") {
		o.Info = true
		o.InfoSlot = g.infoSlot()
	}
	if g.pct(g.k.PCallback, "cb") {
		o.CB = true
		o.CBPanic = g.pct(g.k.PCBPanic, "cbpanic")
	}
	if g.pct(g.k.PNilOptArg, "niloptarg") {
		if g.pct(50, "nilopt") {
			o.InfoNil = true
		} else {
			o.CBNil = true
		}
	}
	if o.Info || o.CB || o.InfoNil || o.CBNil {
		op.O = o
	}
	mf := NewMFn(f, nil, KDeco, s)
	if o.CB && !o.CBPanic && g.pct(g.k.PCBInvoke, "cbinvoke") {
		o.CBInvoke = g.cbInvokeFor(mf)
		op.O = o
	}
	if g.m.DupDecorate(mf) == "" {
		if g.k.AvoidDecoCycle {
			// tentatively add, check for a decorator cycle from every
			// registered function in the subtree; retract if found.
			g.m.AddDeco(mf)
			bad := g.anyDecoCycle()
			if bad {
				g.removeDeco(mf)
				return Op{}, false
			}
		} else {
			g.m.AddDeco(mf)
		}
	}
	if altF != nil {
		g.setAlt(len(g.c.Ops), altF, nil)
	}
	return op, true
}

// genDecoSandwich: on a path of scopes a > m > l (created if necessary) a key
// visible from a is decorated at a, resolved from l, decorated again at m -
// strictly between the first decorator and the consumer - and resolved from l
// (and m) once more: whatever the first resolution left behind, consumers
// below m must now see m's decorator.
func (g *gen) genDecoSandwich(add func(Op)) bool {
	var deep []int
	for s := 0; s < g.nscope; s++ {
		if g.m.Depth(s) >= 2 {
			deep = append(deep, s)
		}
	}
	if len(deep) == 0 {
		// extend the deepest scope
		d := 0
		for s := 0; s < g.nscope; s++ {
			if g.m.Depth(s) > g.m.Depth(d) {
				d = s
			}
		}
		for g.m.Depth(d) < 2 {
			if g.nscope >= g.k.MaxScopes {
				return false
			}
			name := fmt.Sprintf("s%d", g.nscope)
			n := g.m.AddScope(d, name)
			g.nscope++
			add(Op{K: OpScope, S: d, Name: name})
			d = n
		}
		deep = []int{d}
	}
	l := deep[g.pick(len(deep), "swl")]
	anc := g.m.Anc(l) // l first, root last
	mi := 1 + g.pick(len(anc)-2, "swm")
	m := anc[mi]
	a := anc[mi+1+g.pick(len(anc)-mi-1, "swa")]
	singles, groups := g.keysFrom(a, false)
	var k MKey
	switch {
	case len(groups) > 0 && (len(singles) == 0 || g.pct(65, "swgrp")):
		k = groups[g.pick(len(groups), "swgk")]
	case len(singles) > 0:
		k = singles[g.pick(len(singles), "swsk")]
	default:
		return false
	}
	if g.m.NearestDeco(m, k, nil) != nil && g.m.NearestDeco(m, k, nil).Home == m {
		return false
	}
	savedFocus, savedPF := g.focus, g.k.PFocus
	defer func() { g.focus, g.k.PFocus, g.forceDecoKey = savedFocus, savedPF, nil }()
	ask := func(s int, lbl string) {
		g.focus, g.k.PFocus = []MKey{k}, 75
		add(g.genInvoke(s))
		g.focus, g.k.PFocus = savedFocus, savedPF
	}
	g.forceDecoKey = &k
	if op, ok := g.genDecorate(a); ok {
		add(op)
	}
	g.forceDecoKey = nil
	ask(l, "swi1")
	g.forceDecoKey = &k
	op, ok := g.genDecorate(m)
	g.forceDecoKey = nil
	if !ok {
		return true
	}
	add(op)
	if g.pct(40, "swmid") {
		ask(m, "swi2")
	}
	ask(l, "swi3")
	return true
}

func (g *gen) anyDecoCycle() bool {
	for _, sc := range g.m.Scopes {
		for _, c := range sc.Ctors {
			if g.m.FindCycles(c).DecoCycle {
				return true
			}
		}
		for _, d := range sc.DecoL {
			if g.m.FindCycles(d).DecoCycle {
				return true
			}
		}
	}
	return false
}

func (g *gen) removeCtor(mf *MFn) {
	sc := g.m.Scopes[mf.Home]
	for i, c := range sc.Ctors {
		if c == mf {
			sc.Ctors = append(sc.Ctors[:i], sc.Ctors[i+1:]...)
			break
		}
	}
	delete(g.m.Fns, mf.ID)
}

func (g *gen) removeDeco(mf *MFn) {
	sc := g.m.Scopes[mf.View]
	for _, k := range mf.Keys() {
		if sc.Decos[k] == mf {
			delete(sc.Decos, k)
		}
	}
	for i, d := range sc.DecoL {
		if d == mf {
			sc.DecoL = append(sc.DecoL[:i], sc.DecoL[i+1:]...)
			break
		}
	}
	delete(g.m.Fns, mf.ID)
}

func (g *gen) genInvoke(s int) Op {
	f := g.newFn()
	npar := 1 + g.pick(g.k.MaxParams, "npar")
	if g.pct(6, "noparams") {
		npar = 0 // func() / func() error
	}
	ipl := g.drawParamLeaves(s, npar, g.k.PInvokeAll, true)
	f.P = g.encodeParams(ipl)
	if g.pct(g.k.PErr, "err?") {
		f.Err = true
		if g.pct(15, "errt") {
			f.ErrT = "iface"
		}
	}
	g.faults(f)
	if g.pct(g.k.PReencode, "reenc") {
		af := &Fn{ID: f.ID, Err: f.Err, ErrT: f.ErrT, Faults: f.Faults, EK: f.EK, PK: f.PK}
		af.P = g.encodeParamsAlt(ipl)
		if g.k.WrapAlt {
			af.P = g.wrapParams(f.P)
		}
		if g.pct(40, "addvar") {
			af.Var = g.pickStr(g.k.Types, "avart")
		}
		g.setAlt(len(g.c.Ops), af, nil)
	}
	op := Op{K: OpInvoke, S: s, F: f}
	if g.pct(g.k.PInfo, "info") {
		op.O = &Opts{Info: true, InfoSlot: g.infoSlot()}
	}
	if g.pct(g.k.PNilOptArg, "niloptarg") {
		if op.O == nil {
			op.O = &Opts{}
		}
		op.O.InfoNil = true
	}
	return op
}

func (g *gen) infoSlot() int {
	if g.pct(g.k.PInfoShare, "infoshare") {
		return 1 + g.pick(2, "infoslot")
	}
	return 0
}

func (g *gen) pickScope(lbl string) int { return g.pick(g.nscope, lbl) }

func (g *gen) setAlt(opIdx int, f *Fn, o *Opts) {
	if g.c.Variant == nil {
		g.c.Variant = &Variant{}
	}
	if g.c.Variant.Alt == nil {
		g.c.Variant.Alt = map[int]*AltOp{}
	}
	if o != nil && o.Name == "" && o.Group == "" && len(o.As) == 0 && !o.Export && !o.ExportFalse && !o.Info && !o.CB && !o.InfoNil && !o.CBNil && !o.AsEmpty {
		o = nil
	}
	g.c.Variant.Alt[opIdx] = &AltOp{F: f, O: o}
}

func (g *gen) labelAlt(string) {}

// focusOn appends a (probably rejected) registration and remembers its keys
// so that the continuation touches them again.
func (g *gen) focusOn(op Op) {
	g.c.Ops = append(g.c.Ops, op)
	g.focus = nil
	if op.F == nil {
		return
	}
	kind := KCtor
	if op.K == OpDecorate {
		kind = KDeco
	}
	mf := NewMFn(op.F, op.O, kind, op.S)
	for _, k := range mf.Keys() {
		if k.T != "" {
			if _, ok := pool[k.T]; ok {
				g.focus = append(g.focus, k)
			}
		}
	}
	for _, l := range mf.Leaves {
		if _, ok := pool[l.Key.T]; ok && l.Key.T != "" {
			g.focus = append(g.focus, l.Key)
		}
	}
	// declared hostile In/Out structs: the keys their fields would stand for
	var walkR func(rs []Result)
	walkR = func(rs []Result) {
		for _, r := range rs {
			if strings.HasPrefix(r.Host, "HOutUnexp") {
				g.focus = append(g.focus, MKey{T: "T1"}, MKey{T: "T0", Group: "g"}, MKey{T: "T0", Name: "a"})
			}
			if r.Host == "NS0" || r.Host == "NS1" {
				g.focus = append(g.focus, MKey{T: "I0", Group: "g"}, MKey{T: "T0", Group: "g"})
			}
			if strings.HasPrefix(r.Host, "sliceslice") {
				g.focus = append(g.focus, MKey{T: "T0", Group: "g"}, MKey{T: "S0", Group: "g"}, MKey{T: "T0", Group: "h"})
			}
			walkR(r.Obj)
		}
	}
	walkR(op.F.R)
	for _, p := range op.F.P {
		if strings.HasPrefix(p.Host, "HInUnexp") {
			g.focus = append(g.focus, MKey{T: "T1"}, MKey{T: "T0", Group: "g"}, MKey{T: "T0", Name: "a"})
		}
	}
}

// GenCase draws a whole history.
func GenCase(t *rapid.T, k Knobs) *Case {
	g := &gen{t: t, k: k, m: NewModel(), c: &Case{}, nscope: 1}
	g.c.Cfg.Defer = g.pct(k.PDefer, "defer")
	g.c.Cfg.Recover = g.pct(k.PRecover, "recover")
	g.c.Cfg.DryFalse = g.pct(4, "dryfalse") // explicit DryRun(false): no effect
	g.c.Cfg.DryBoth = g.pct(3, "dryboth")   // DryRun(true) then DryRun(false): the later one wins
	g.c.Cfg.Shadow = g.pct(6, "shadow")     // another container is used first
	nops := rapid.IntRange(k.MinOps, k.MaxOps).Draw(t, "nops")
	wDec := k.WDecorate
	if k.NoDecorators {
		wDec = 0
	}
	type wop struct {
		w int
		f func()
	}
	add := func(op Op) { g.c.Ops = append(g.c.Ops, op) }
	ops := []wop{
		{k.WScope, func() {
			if g.nscope >= k.MaxScopes {
				add(g.genProvide(g.pickScope("ps0")))
				return
			}
			parent := g.pickScope("parent")
			if g.m.Depth(parent) >= k.MaxDepth {
				parent = 0
			}
			name := fmt.Sprintf("s%d", g.nscope)
			if g.nscope > 1 && g.pct(12, "dupname") {
				// scope names need not be unique, not even among siblings
				name = fmt.Sprintf("s%d", 1+g.pick(g.nscope-1, "dupnamek"))
			}
			g.m.AddScope(parent, name)
			g.nscope++
			add(Op{K: OpScope, S: parent, Name: name})
		}},
		{k.WProvide, func() { add(g.genProvide(g.pickScope("ps"))) }},
		{wDec, func() {
			if op, ok := g.genDecorate(g.pickScope("ds")); ok {
				add(op)
			} else {
				add(g.genProvide(g.pickScope("ps2")))
			}
		}},
		{k.WInvoke, func() {
			is := g.pickScope("is")
			if ss, gs := g.visibleKeys(is); len(ss)+len(gs) == 0 && !g.pct(g.k.PHole/4, "emptyinvoke") {
				// nothing to ask for yet: register something instead
				add(g.genProvide(is))
				return
			}
			add(g.genInvoke(is))
			if g.pct(g.k.PVisAfter, "visafter") {
				// Visualize with (the error of) this very Invoke
				e := len(g.c.Ops) - 1
				add(Op{K: OpVisualize, ErrOf: &e})
			}
		}},
		{k.WVisualize, func() {
			op := Op{K: OpVisualize}
			// mostly with the error of an earlier Invoke (VisualizeError)
			var invs []int
			for i, o := range g.c.Ops {
				if o.K == OpInvoke {
					invs = append(invs, i)
				}
			}
			if len(invs) > 0 && g.pct(60, "viserr") {
				e := invs[g.pickLate(len(invs), "viserrof")]
				op.ErrOf = &e
			}
			add(op)
		}},
		{k.WString, func() { add(Op{K: OpString, S: g.pickScope("ss")}) }},
		{k.WBadProvide, func() { g.focusOn(g.genBadProvide(g.pickScope("bps"))) }},
		{k.WBadDecorate, func() { g.focusOn(g.genBadDecorate(g.pickScope("bds"))) }},
		{k.WBadInvoke, func() { add(g.genBadInvoke(g.pickScope("bis"))) }},
		{k.WCycleCloser, func() {
			if op, ok := g.genCycleCloser(); ok {
				g.focusOn(op)
			} else {
				add(g.genProvide(g.pickScope("ps3")))
			}
		}},
		{k.WShadowCycle, func() {
			if sops, ok := g.genShadowCycle(); ok {
				for _, op := range sops[:len(sops)-1] {
					add(op)
				}
				g.focusOn(sops[len(sops)-1])
			} else {
				add(g.genProvide(g.pickScope("ps5")))
			}
		}},
		{k.WDecoSandwich, func() {
			if !g.genDecoSandwich(add) {
				add(g.genProvide(g.pickScope("ps6")))
			}
		}},
		{k.WDupDecorate, func() {
			if op, ok := g.genDupDecorate(); ok {
				g.focusOn(op)
			} else if op, ok := g.genDecorate(g.pickScope("ds2")); ok {
				add(op)
			} else {
				add(g.genProvide(g.pickScope("ps4")))
			}
		}},
	}
	for len(g.c.Ops) < nops {
		// TwoPhase: registrations dominate the first part of a history and
		// invocations the rest (deeper, not yet built closures)
		wInv := k.WInvoke
		if k.TwoPhase {
			if len(g.c.Ops)*5 < nops*3 {
				wInv = (k.WInvoke + 3) / 4
			} else {
				wInv = k.WInvoke * 2
			}
		}
		total := 0
		for i, o := range ops {
			w := o.w
			if i == 3 {
				w = wInv
			}
			total += w
		}
		r := g.pick(total, "op")
		for i, o := range ops {
			w := o.w
			if i == 3 {
				w = wInv
			}
			if r < w {
				o.f()
				break
			}
			r -= w
		}
	}
	return g.c
}

// GenDeepChain draws a long line of constructors f1 <- f2 <- ... <- fL over
// distinct keys (registered in a random order, spread over a path of nested
// scopes), whose bottom either fails (error / panic), lacks a dependency, or
// works, and Invokes the top - error chains and resolution depth that the
// ordinary histories (a dozen registrations) never reach.
func GenDeepChain(t *rapid.T, k Knobs, maxLen int) *Case {
	g := &gen{t: t, k: k, m: NewModel(), c: &Case{}, nscope: 1}
	g.c.Cfg.Recover = g.pct(50, "recover")
	g.c.Cfg.Defer = g.pct(15, "defer")
	var keys []MKey
	for _, kk := range g.universe() {
		if !isIface(kk.T) && kk.T != "L0" {
			keys = append(keys, kk)
		}
	}
	// shuffle (Fisher-Yates over rapid draws)
	for i := len(keys) - 1; i > 0; i-- {
		j := g.pick(i+1, "shuf")
		keys[i], keys[j] = keys[j], keys[i]
	}
	L := 8 + g.pick(maxLen-7, "chainlen")
	if L > len(keys)-1 {
		L = len(keys) - 1
	}
	nsc := g.pick(3, "chainscopes")
	for s := 0; s < nsc; s++ {
		g.m.AddScope(s, fmt.Sprintf("s%d", s+1))
		g.c.Ops = append(g.c.Ops, Op{K: OpScope, S: s, Name: fmt.Sprintf("s%d", s+1)})
		g.nscope++
	}
	bottom := g.pick(4, "bottom") // 0 ok, 1 error, 2 panic, 3 missing dependency
	var provides []Op
	scope := 0
	for i := 0; i < L; i++ {
		f := g.newFn()
		if i > 0 {
			f.P = g.encodeParams([]pleaf{{key: keys[i-1]}})
		} else if bottom == 3 {
			f.P = g.encodeParams([]pleaf{{key: keys[L]}}) // nobody provides keys[L]
		}
		f.R = g.encodeResults([]rleaf{{key: keys[i]}}, false)
		if i == 0 && (bottom == 1 || bottom == 2) {
			f.Err = true
			f.Faults = []int{bottom}
			f.PK = g.pick(8, "pk")
			f.EK = g.pick(3, "ek")
		} else if g.pct(30, "haserr") {
			f.Err = true
		}
		// move down the scope path now and then (providers stay visible)
		if scope < nsc && g.pct(20, "down") {
			scope++
		}
		provides = append(provides, Op{K: OpProvide, S: scope, F: f})
	}
	for i := len(provides) - 1; i > 0; i-- {
		j := g.pick(i+1, "pshuf")
		provides[i], provides[j] = provides[j], provides[i]
	}
	g.c.Ops = append(g.c.Ops, provides...)
	inv := g.newFn()
	inv.P = g.encodeParams([]pleaf{{key: keys[L-1]}})
	g.c.Ops = append(g.c.Ops, Op{K: OpInvoke, S: scope, F: inv})
	if g.pct(50, "again") {
		inv2 := g.newFn()
		inv2.P = g.encodeParams([]pleaf{{key: keys[g.pick(L, "again-k")], opt: g.pct(30, "again-opt")}})
		g.c.Ops = append(g.c.Ops, Op{K: OpInvoke, S: scope, F: inv2})
	}
	if g.pct(30, "vis") {
		e := len(g.c.Ops) - 1
		g.c.Ops = append(g.c.Ops, Op{K: OpVisualize, ErrOf: &e})
	}
	return g.c
}

module verifharness

go 1.23

require (
	go.uber.org/dig v0.0.0
	pgregory.net/rapid v1.3.0
)

replace go.uber.org/dig => /repo

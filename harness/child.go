package harness

import (
	"encoding/json"
	"os"
	"os/exec"
	"time"
)

// In-flight marker: the case being executed is written to the path in
// VERIF_INFLIGHT before it runs, so that the driver can report it if the
// worker process dies (a fatal stack overflow cannot be recovered).
var inflightPath = os.Getenv("VERIF_INFLIGHT")

func writeInflight(c *Case) {
	if inflightPath == "" {
		return
	}
	os.WriteFile(inflightPath, c.JSON(), 0o644)
}

type childReq struct {
	Case  *Case `json:"case"`
	Stop  int   `json:"stop"`
	Order []int `json:"order,omitempty"`
	Defer *bool `json:"defer,omitempty"`
}

// ChildRuns counts child-process executions (evidence).
var ChildRuns int

// childCrashes runs the first `stop` ops of the case in a child process (the
// test binary itself, TestChild) and reports whether that process died.
func childCrashes(c *Case, ro RunOpts, stop int) bool {
	ChildRuns++
	exe, err := os.Executable()
	if err != nil {
		return false
	}
	f, err := os.CreateTemp("", "verif-child-*.json")
	if err != nil {
		return false
	}
	defer os.Remove(f.Name())
	b, _ := json.Marshal(childReq{Case: c, Stop: stop, Order: ro.Order, Defer: ro.ForceDefer})
	f.Write(b)
	f.Close()
	cmd := exec.Command(exe, "-test.run", "^TestChild$", "-test.timeout", "60s")
	cmd.Env = append(os.Environ(), "VERIF_CHILD="+f.Name(), "VERIF_INFLIGHT=", "VERIF_STATS=", "VERIF_FAILOUT=")
	done := make(chan error, 1)
	go func() { _, err := cmd.CombinedOutput(); done <- err }()
	select {
	case err := <-done:
		return err != nil
	case <-time.After(90 * time.Second):
		cmd.Process.Kill()
		return true
	}
}

// RunChild is the body of the child process.
func RunChild(path string) error {
	b, err := os.ReadFile(path)
	if err != nil {
		return err
	}
	var req childReq
	if err := json.Unmarshal(b, &req); err != nil {
		return err
	}
	Run(req.Case, RunOpts{StopAfter: req.Stop, Order: req.Order, ForceDefer: req.Defer, Risky: "run"})
	return nil
}

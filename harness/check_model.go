package harness

import (
	"pgregory.net/rapid"
)

// Model-based checks that share Run + Validate and differ in generator knobs,
// asserted clauses and non-triviality rule.

type modelCheck struct {
	id      string
	rule    string
	knobs   func() Knobs
	clauses []string
	nt      func(l map[string]bool) bool
	assume  []string
	valid   bool   // ValidSigs
	deep    int    // percentage of cases that are one long line of constructors (GenDeepChain)
	risky   string // RunOpts.Risky: how Invokes whose resolution traverses a constructor cycle are executed
	// tweak may adjust the knobs per case (drawn from the rapid stream)
	tweak func(t *rapid.T, k *Knobs)
}

func (mc modelCheck) register() {
	register(&PropDef{
		ID:          mc.id,
		Rule:        mc.rule + "; distinct by FNV-64 of the canonical IR",
		Assumptions: append([]string{"harness model (written from the property statement and doc.go) is the oracle", "reflect.MakeFunc/StructOf-built functions behave like declared ones for dig"}, mc.assume...),
		Gen: func(t *rapid.T, thorough bool) *Case {
			k := scale(mc.knobs(), thorough)
			if mc.tweak != nil {
				mc.tweak(t, &k)
			}
			if mc.deep > 0 && rapid.IntRange(0, 99).Draw(t, "deepchain") < mc.deep {
				n := 24
				if thorough {
					n = 40
				}
				k.Names = []string{"a", "b", "c", "d"}
				k.Types = []string{"T0", "T1", "T2", "T3", "T4", "T5", "S0", "S1"}
				return GenDeepChain(t, k, n)
			}
			return GenCase(t, k)
		},
		Check: func(c *Case, st *Stats) *Failure {
			risky := mc.risky
			if risky == "" {
				// since F10 a traversed cycle returns an error; if a worker
				// dies anyway the driver reports the in-flight case
				risky = "run"
			}
			tr := Run(c, RunOpts{Risky: risky})
			v := Validate(c, tr, VOpts{ValidSigs: mc.valid})
			l := CaseLabels(c, v)
			ModelLabels(c, v, l)
			st.Record(c, mc.nt(l), l)
			st.Count("zone_skipped_invokes", v.ZoneSkips)
			st.Count("invokes", len(v.Invokes))
			for _, ii := range v.Invokes {
				if tr.Ops[ii.Op].Class == ClRisky {
					st.Count("risky_invokes_not_executed", 1)
				}
			}
			cl := append(append([]string{}, commonClauses...), mc.clauses...)
			cl = append(cl, CMissedCycleInvoke)
			for _, op := range c.Ops {
				if op.K == OpDecorate && op.F != nil && op.F.Reenter != nil {
					st.Count("cases_with_reentrant_decorator", 1)
					return failFrom(v.First(CEscapedPanic, CExecTwice, CNested))
				}
			}
			if mc.valid {
				// every registration of these histories is well-formed: the
				// only legitimate rejections are duplicates and cycles
				cl = append(cl, CVerdictProvide, CVerdictDecorate)
			}
			return failFrom(v.First(cl...))
		},
	})
}

func init() {
	// C02 — singletons
	modelCheck{
		id:   "C02",
		rule: "histories biased to repeated Invokes of the same keys from several scopes, with fault-then-retry plans and constructor bodies that call back into the container (re-entrant Invoke of their own or other keys); non-trivial = some function's outputs were delivered >=3 times through >=2 different paths (direct parameter / group membership / decorator input) or to consumers in >=2 scopes",
		knobs: func() Knobs {
			k := DefaultKnobs()
			k.WInvoke = 12
			k.MaxOps = 26
			k.PExport = 25
			k.PGroupRes, k.PGroupParam = 30, 30
			k.NoFaults, k.PFault, k.PErr = false, 12, 35
			k.PRecover = 60
			// callbacks are user code as well: one that panics must not make
			// a constructor that completed run again
			k.PCallback, k.PCBPanic = 15, 40
			k.PCBInvoke = 30
			k.Types = []string{"T0", "T1", "T2", "T3", "S0"}
			k.PSide = 8 // bodies that call String / Visualize / Scope / Provide / Decorate on the container
			return k
		},
		tweak: func(t *rapid.T, k *Knobs) {
			// a fifth of the cases: constructor bodies call back into the
			// container. No decorators there: while a decorator builds its
			// arguments dig skips it by design, so a nested consumer would
			// legitimately see the undecorated value.
			switch r := rapid.IntRange(0, 19).Draw(t, "reentrant-case"); {
			case r >= 16:
				k.NoDecorators = true
				k.PReenter = 40
			case r >= 14:
				// decorator bodies that call Invoke: what the nested
				// consumers see is not claimed (the running decorator is
				// skipped), only that nothing runs twice or re-enters
				k.PReenterDeco = 50
				k.WDecorate = 6
			}
		},
		clauses: []string{CExecTwice, CNested, CBadExec, CProvSingle, CGroupMultiset},
		nt:      func(l map[string]bool) bool { return l["demanded>=3-via-2-paths"] },
		valid:   true,
	}.register()

	// C03 — laziness
	modelCheck{
		id:   "C03",
		rule: "histories with many bystander registrations in every scope plus Visualize/String ops; non-trivial = at the time of a successful Invoke that executes >=2 functions there are >=3 registered functions outside its closure, in >=2 scopes",
		knobs: func() Knobs {
			k := DefaultKnobs()
			k.WProvide, k.WDecorate, k.WInvoke, k.WScope = 14, 4, 6, 4
			k.WVisualize, k.WString = 1, 1
			k.MaxOps = 28
			k.MaxScopes = 6
			k.PSoft = 35
			// (cross-feature, low rate) the property is also judged on
			// containers that have seen failed executions and rejected
			// (cycle-closing) registrations
			k.NoFaults, k.PFault, k.PPanic = false, 4, 50
			k.WCycleCloser = 1
			k.PSide = 8 // bodies that call String / Visualize / Scope / Provide / Decorate on the container
			k.PSideKey = 4
			// group decorators that replace the group without reading it:
			// the feeders are then outside every consumer's closure
			k.PDecoGroup, k.PDecoSelf, k.PGroupRes = 45, 45, 35
			return k
		},
		clauses: []string{CUserCodeOutsideInvoke, COutsideClosure, CMustRunMissing, CBadExec, CUnregisteredRan},
		nt:      func(l map[string]bool) bool { return l["bystanders>=3-in-2-scopes"] },
		valid:   true,
	}.register()

	// C04 — missing dependencies
	modelCheck{
		id:   "C04",
		rule: "dependency graphs with holes at controlled depth, optional/required edges above them and providers above/beside/below the consumer; non-trivial = an Invoke that must fail although every direct parameter has a visible constructor (hole at depth>=2), or a consumer with an optional leaf whose constructor exists but is unavailable, or a key that is provided only in a scope the consumer cannot see",
		knobs: func() Knobs {
			k := DefaultKnobs()
			k.PAvail, k.PHole, k.POpt = 80, 60, 35
			k.PreferAvailable = false
			k.PInvokeAll = 92
			// decorators are present (a failure below a decorator must not be
			// forgiven by an optional edge above it either); optional fields
			// whose own key is decorated by an unavailable decorator are the
			// property's carve-out and are excluded as a zone
			k.WDecorate = 2
			k.PDecoGroup = 10
			k.MaxScopes = 5
			k.NoFaults, k.PFault, k.PErr = false, 10, 35
			k.WCycleCloser = 1 // after a cycle-rejected registration the state must be intact
			// decorators of keys that nothing provides: a decorator is no
			// constructor, a required dependency on such a key is missing
			k.PDecoOrphan = 12
			return k
		},
		clauses: []string{CVerdictInvoke, CZeroAvailable, CZeroRequired, CNonZeroUnavail, CUnavailDirectRan, CRootCause},
		nt: func(l map[string]bool) bool {
			return l["deep-hole"] || l["optional-above-hole"] || l["provider-not-visible"]
		},
		deep:  5,
		valid: true,
	}.register()

	// C08 — scope visibility
	modelCheck{
		id:   "C08",
		rule: "scope trees (depth<=4, fan-out<=3) with the same keys provided at several levels and in siblings, Export, scopes created before and after registrations, Invokes from every scope; non-trivial = (a key provided in >=2 scopes of one root path, or in >=2 scopes with a consumer elsewhere, or Export used) in a tree of depth>=2 with a successful Invoke",
		knobs: func() Knobs {
			k := DefaultKnobs()
			k.WScope, k.MaxScopes, k.MaxDepth = 6, 7, 4
			k.PExport = 25
			k.Types = []string{"T0", "T1", "T2", "S0"}
			k.Ifaces = []string{"I0"}
			k.Names = []string{"a"}
			k.PFresh = 90
			k.WDecorate = 2
			k.MaxOps = 26
			// (cross-feature, low rate) the property is also judged on
			// containers that have seen failed executions and rejected
			// (cycle-closing) registrations
			k.NoFaults, k.PFault, k.PPanic = false, 4, 50
			k.WCycleCloser = 1
			k.PSideKey = 7 // constructor bodies that register a constructor for a fresh key while they run
			k.PShadow = 30 // the same key provided again below a scope that provides (and perhaps already built) it
			return k
		},
		clauses: []string{CProvSingle, CFromNowhere, CVerdictInvoke, CVerdictProvide, CGroupForeign, CGroupMultiset, CZeroAvailable, CBadExec},
		nt: func(l map[string]bool) bool {
			return l["depth>=2"] && l["invoke-ok"] && (l["same-key-2-levels"] || l["same-key-2-scopes"] || l["has-export"])
		},
		valid: true,
	}.register()

	// C09 — key identity and duplicates
	modelCheck{
		id:   "C09",
		rule: "tiny universes (2 concrete types + 2 interfaces, names {a, b, a+blank}, groups {a, b, a+blank, blank+a}) so that collisions are the norm, names/groups via option and via tag at any nesting, As lists, several scopes; non-trivial = at least one duplicate-key attempt and at least one As, with an Invoke that succeeded and one that failed",
		knobs: func() Knobs {
			k := DefaultKnobs()
			k.Types = []string{"T0", "T2", "L0"}
			k.Ifaces = []string{"I1", "I2", "I01"}
			// names are exact strings: "a" and "a " (trailing blank) are different keys
			k.Names = []string{"a", "b", "a "}
			k.Groups = []string{"a", "b", "a ", " a"}
			k.PFresh, k.PAs, k.PNamed, k.PGroupRes, k.PGroupParam = 55, 45, 45, 25, 25
			k.PInvokeAll, k.PHole = 75, 80
			k.MaxScopes = 4
			k.WDecorate = 1
			k.PCycleKeep = 0
			// the duplicate rule must also hold after registrations that dig
			// rejected as cycles (in the target scope or below it)
			k.WCycleCloser, k.WShadowCycle = 2, 1
			k.PFocus = 45
			k.PEmptyGroup = 5
			return k
		},
		clauses: []string{CVerdictProvide, CProvSingle, CFromNowhere, CVerdictInvoke, CGroupForeign, CGroupMultiset, CZeroAvailable},
		nt:      func(l map[string]bool) bool { return l["dup-attempt"] && l["has-as"] && l["invoke-ok"] },
		valid:   true,
	}.register()

	// C10 — value groups
	modelCheck{
		id:   "C10",
		rule: "0-8 feeders per (type, group): plain / flatten (incl. nil and empty slices) / As, feeders and consumers at every level of the scope tree incl. Export, Provide interleaved with repeated requests, no group decorators; non-trivial = a successful hard group request in a case with >=3 feeders of one group in >=2 scopes, or flatten, or a feeder added between two requests",
		knobs: func() Knobs {
			k := DefaultKnobs()
			k.Types = []string{"T0", "T1", "T5"}
			k.Ifaces = []string{"I0"}
			k.Groups = []string{"g", "h", "soft", "flatten"} // a name is a name, even if it spells an option
			k.PGroupRes, k.PGroupParam, k.PSoft, k.PFlatten = 65, 65, 8, 40
			k.PAs = 30
			k.PCallback, k.PCBInvoke = 10, 50 // feeders whose callback asks for the whole group
			k.PDecoGroup = 0
			k.WDecorate = 1
			k.PExport = 25
			k.WInvoke = 9
			k.MaxOps = 26
			// (cross-feature, low rate) the property is also judged on
			// containers that have seen failed executions and rejected
			// (cycle-closing) registrations
			k.NoFaults, k.PFault, k.PPanic = false, 4, 50
			k.WCycleCloser = 1
			return k
		},
		clauses: []string{CGroupMultiset, CGroupForeign, CExecTwice, CBadExec},
		nt: func(l map[string]bool) bool {
			return l["group-request-ok"] && (l["feeders>=3-in-2-scopes"] || l["has-flatten"] || l["feeder-between-requests"])
		},
		valid: true,
	}.register()

	// C11 — soft groups
	modelCheck{
		id:   "C11",
		rule: "soft consumers next to hard consumers and ordinary dependencies on constructors that return a value and a group member, every field order inside parameter objects, every order of Invokes, no group decorators; non-trivial = a soft field that precedes, in its parameter object, a field whose constructor feeds the same group, or soft and hard consumers of one group in one case, with a soft consumer actually executed",
		knobs: func() Knobs {
			k := DefaultKnobs()
			k.Types = []string{"T0", "T1", "T2", "T5"}
			k.Ifaces = []string{"I0"}
			k.Groups = []string{"g"}
			k.PGroupRes, k.PGroupParam, k.PSoft, k.PFlatten = 55, 55, 60, 25
			k.MaxResults = 3
			k.PDecoGroup = 0
			k.WDecorate = 1
			k.WInvoke = 9
			k.PObjParam = 70
			k.PSoftSibling = 60
			k.PCallback, k.PCBInvoke = 10, 60 // a callback that asks (softly) for the group its function has just fed
			// (cross-feature, low rate) the property is also judged on
			// containers that have seen failed executions and rejected
			// (cycle-closing) registrations
			k.NoFaults, k.PFault, k.PPanic = false, 4, 50
			k.WCycleCloser = 1
			return k
		},
		clauses: []string{COutsideClosure, CGroupForeign, CGroupMultiset, CSoftLower, CSoftDup, CBadExec, CExecTwice},
		nt: func(l map[string]bool) bool {
			return l["soft-executed"] && (l["soft-before-feeding-sibling"] || l["soft-and-hard"])
		},
		valid: true,
	}.register()

	// C12 — decoration
	modelCheck{
		id:   "C12",
		rule: "decorators (single-key, multi-key, group; consuming or replacing; with extra dependencies) at every level, providers above/at/below them, Decorate before/after Provide and between Invokes, second Decorate for a decorated key; non-trivial = a decorator actually executed in a case with >=2 decorators for one key on one root path, or a multi-key/group decorator, or a Decorate issued after an Invoke",
		knobs: func() Knobs {
			k := DefaultKnobs()
			k.WDecorate = 9
			k.WProvide = 9
			k.PDecoGroup, k.PDecoMulti, k.PDecoExtra = 30, 35, 35
			// some failures too: a decorator whose first run was aborted
			// must still be applied afterwards
			k.NoFaults, k.PFault, k.PErr, k.PPanic, k.PRecover = false, 8, 35, 50, 40
			k.Types = []string{"T0", "T1", "T2", "S0"}
			k.Ifaces = []string{"I0"}
			k.Names = []string{"a"}
			k.MaxScopes = 5
			k.MaxOps = 26
			k.WCycleCloser = 1                // after a cycle-rejected registration the state must be intact
			k.PSide = 8                       // bodies that call String / Visualize / Scope / Provide / Decorate on the container
			k.PNamedSlice = 25                // decorators and consumers that declare one group with different (named) slice types
			k.PCallback, k.PCBInvoke = 10, 50 // a decorator's callback invokes a consumer of the decorated key
			k.WDecoSandwich = 2               // a decorator registered between an outer decorator and a consumer that has resolved the key before
			k.WDupDecorate = 2                // a second decorator for a decorated key / one decorator returning a key twice: rejected
			return k
		},
		clauses: []string{CVerdictDecorate, CExecTwice, CProvSingle, CGroupMultiset, CFromNowhere, CBadExec, CZeroRequired},
		nt: func(l map[string]bool) bool {
			return l["deco-executed"] && (l["deco-chain"] || l["deco-multi"] || l["deco-group"] || l["decorate-after-invoke"])
		},
		valid: true,
	}.register()
}

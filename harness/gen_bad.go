package harness

import (
	"fmt"
	"strings"
)

// ---------------------------------------------------------------------------
// Generators for registrations that dig must reject (C06) and for the
// bad-input grammar (C14).
// ---------------------------------------------------------------------------

var hostileTags = []string{
	`optional:"maybe"`, `optional:""`, `optional:"true" group:"g"`, `group:"g,bogus"`, `group:",flatten"`,
	`group:"g,soft,flatten"`, `group:"g,flatten"`, `group:"g,soft"`, `name:"a" group:"g"`, `name:"a" optional:"true"`,
	`group:""`, `group:","`, `name:""`, `nonsense`, `name:"unterminated`, `optional:"1"`, `optional:"T"`, `optional:"yes"`,
	`name:"<b>&amp;\""`, `name:"a\nb"`, "name:\"back`tick\"", `group:"g,,"`, `group:"<i>"`, `name:"]; drop"`,
	`ignore-unexported:"true"`, `optional:"false" name:"a"`,
}

var hostileNames = []string{"a", "", "back`tick", "<b>", "x\"y", "a\nb", "&amp;", "]", "[group=x]", "名前", "a,flatten", " ", "%v%s"}

var hostileGroups = []string{"g", "g,flatten", "g,soft", "g,bogus", ",flatten", "g,flatten,flatten", "back`tick", "<i>x</i>", "", ",", "g,", "a b"}

var rawValues = []string{"nil", "int", "string", "struct", "ptr", "nilfunc", "nilfuncin", "slice", "map", "chan", "nilptr", "in", "out", "err"}

var rawAsValues = []string{"nil", "int", "ptrstruct", "ptrptr", "iface", "ptrerr", "ptrany", "func", "I0", "I1", "I2", "nilI0"}

// genTag draws a struct tag: one of the fixed hostile tags or a composition
// of 1-3 key:"value" pairs over dig's tag keys (and foreign ones) with values
// from small hostile vocabularies, joined by assorted separators.
func (g *gen) genTag(lbl string) string {
	if g.pct(35, lbl+"fixed") {
		return g.pickStr(hostileTags, lbl+"f")
	}
	n := 1 + g.pick(3, lbl+"n")
	var parts []string
	for i := 0; i < n; i++ {
		l := fmt.Sprintf("%s%d", lbl, i)
		key := g.pickStr([]string{"name", "group", "optional", "ignore-unexported", "json", "Name", "soft", "flatten"}, l+"k")
		var val string
		switch key {
		case "name", "Name":
			val = g.pickStr(hostileNames, l+"nv")
		case "group":
			val = g.pickStr([]string{"g", "h", "", "<i>", "a b", "g g"}, l+"gb")
			for j, m := 0, g.pick(3, l+"gs"); j < m; j++ {
				val += g.pickStr([]string{",flatten", ",soft", ",bogus", ",", ",Flatten", ", soft", ",flatten,soft"}, fmt.Sprintf("%sgs%d", l, j))
			}
		case "optional", "ignore-unexported", "soft", "flatten":
			val = g.pickStr([]string{"true", "false", "1", "0", "t", "F", "TRUE", "maybe", "", " true", "yes"}, l+"bv")
		default:
			val = "x"
		}
		parts = append(parts, fmt.Sprintf("%s:%q", key, val))
	}
	return strings.Join(parts, g.pickStr([]string{" ", " ", "  ", "", "\t"}, lbl+"sep"))
}

// withGoodFields surrounds a hostile parameter field with 0-2 well-formed
// ones (single keys and groups), so that a rejection happens after part of
// the object has already been processed.
func (g *gen) withGoodParams(s int, bad Param, lbl string) Param {
	var before, after []Param
	for _, l := range g.drawParamLeaves(s, g.pick(3, lbl+"nb"), 80, true) {
		before = append(before, l.param())
	}
	for _, l := range g.drawParamLeaves(s, g.pick(2, lbl+"na"), 80, true) {
		after = append(after, l.param())
	}
	fields := append(append(before, bad), after...)
	if g.pct(25, lbl+"nest") {
		// the hostile field sits in a nested object
		return Param{IsObj: true, Obj: append(before, append([]Param{{IsObj: true, Obj: []Param{bad}}}, after...)...)}
	}
	return Param{IsObj: true, Obj: fields}
}

func (g *gen) withGoodResults(bad Result, lbl string) Result {
	var fields []Result
	nb := g.pick(3, lbl+"nb")
	for i := 0; i < nb; i++ {
		r := Result{T: g.pickStr(g.k.Types, fmt.Sprintf("%st%d", lbl, i))}
		switch g.pick(3, fmt.Sprintf("%sk%d", lbl, i)) {
		case 0:
			r.Name = fmt.Sprintf("w%d", i)
		case 1:
			r.Group = g.pickStr([]string{"g", "h"}, fmt.Sprintf("%sg%d", lbl, i))
		default:
			r.Name = fmt.Sprintf("v%d", i)
		}
		fields = append(fields, r)
	}
	pos := g.pick(len(fields)+1, lbl+"pos")
	fields = append(fields[:pos], append([]Result{bad}, fields[pos:]...)...)
	return Result{IsObj: true, Obj: fields}
}

// types for fields carrying hostile tags: pool types plus a few whose
// reflect.Type has no Elem()
func (g *gen) tagFieldParam(lbl string) Param {
	if g.pct(35, lbl+"h") {
		return Param{Host: g.pickStr([]string{"int", "string", "any", "HPlain", "error", "map", "chan", "arr"}, lbl+"ht")}
	}
	return Param{T: g.pickStr(append(append([]string{}, g.k.Types...), "S0", "S1"), lbl+"t")}
}

// a valid-looking base function for scope s
func (g *gen) baseFn(s int) *Fn {
	f := g.newFn()
	f.R = []Result{{T: g.pickStr(g.k.Types, "bt")}}
	n := g.pick(3, "bnp")
	f.P = g.encodeParams(g.drawParamLeaves(s, n, 90, true))
	return f
}

func (g *gen) hostParam(lbl string) Param {
	return Param{Host: HostileNames[g.pick(len(HostileNames), lbl)]}
}

func (g *gen) hostResult(lbl string) Result {
	return Result{Host: HostileNames[g.pick(len(HostileNames), lbl)]}
}

// genBadProvide builds a Provide that dig is expected to reject (or, for a
// few hostile-but-legal inputs, to accept). kind selects the construction.
func (g *gen) genBadProvide(s int) Op {
	f := g.baseFn(s)
	o := &Opts{}
	nk := 24
	kind := g.pick(nk, "badkind")
	switch kind {
	case 0: // name and group together
		o.Name, o.Group = "a", "g"
	case 1: // name option with a result object
		f.R = []Result{{IsObj: true, Obj: []Result{{T: "T0"}}}}
		o.Name = "a"
	case 2: // group option with a result object
		f.R = []Result{{IsObj: true, Obj: []Result{{T: "T0"}}}}
		o.Group = "g"
	case 3: // hostile group option
		o.Group = g.pickStr(hostileGroups, "hg")
	case 4: // As with an interface that is not implemented / hostile As values
		f.R = []Result{{T: "T4"}}
		o.As = []string{g.pickStr(IfaceTypes, "asi")}
	case 5:
		o.AsRaw = []string{g.pickStr(rawAsValues, "asraw")}
		if g.pct(50, "asraw2") {
			o.AsRaw = append(o.AsRaw, g.pickStr(rawAsValues, "asraw2v"))
		}
		if g.pct(35, "asrawgroup") {
			// option validation must not stop at the group
			o.Group = g.pickStr([]string{"g", "g,flatten"}, "asrawg")
		}
	case 6: // no results at all / only an error
		f.R = nil
		f.Err = g.pct(50, "onlyerr")
	case 7: // hostile result type
		f.R = []Result{g.hostResult("hr")}
		if g.pct(40, "hr2") {
			f.R = append(f.R, Result{T: "T1"})
		}
		if g.pct(30, "hrerr") {
			// a well-formed result next to a concrete type that implements
			// error: accepted, and the function runs when the key is asked for
			f.R = []Result{{T: g.pickStr(g.k.Types, "hret")}, {Host: g.pickStr([]string{"HErrVal", "HErrPtr", "HErrSlice", "HErrInt", "HErrIface"}, "hrek")}}
			if g.pct(50, "hrefirst") {
				f.R[0], f.R[1] = f.R[1], f.R[0]
			}
			f.P = nil
		}
	case 8: // hostile parameter type
		f.P = append(f.P, g.hostParam("hp"))
	case 9: // malformed tag on a result-object field
		bad := Result{T: g.pickStr(g.k.Types, "rt"), Tag: g.genTag("rtag")}
		if g.pct(30, "rtsl") {
			bad.Slice, bad.N = true, g.pick(3, "rtn")
		}
		f.R = []Result{g.withGoodResults(bad, "rg")}
	case 10: // malformed tag on a parameter-object field
		p := g.tagFieldParam("pt")
		p.Tag = g.genTag("ptag")
		if g.pct(50, "pslice") {
			p.Group = "g" // slice-typed field
		}
		if g.pct(20, "pobjtag") {
			// the tag sits on a field that is itself a parameter object
			p = Param{IsObj: true, Obj: []Param{{T: "T0"}}, Tag: p.Tag}
		}
		f.P = append(f.P, g.withGoodParams(s, p, "pg"))
	case 11: // hostile name / group option strings
		if g.pct(50, "hn") {
			o.Name = g.pickStr(hostileNames, "hname")
		} else {
			o.Group = g.pickStr(hostileNames, "hgroup")
		}
	case 12: // the same key twice within one constructor
		t := g.pickStr(g.k.Types, "dupt")
		f.R = []Result{{T: t}, {IsObj: true, Obj: []Result{{T: "T5", Name: "zz"}, {IsObj: true, Obj: []Result{{T: t}}}}}}
	case 13: // flatten on slices with As, on named slices
		f.R = []Result{{Host: g.pickStr([]string{"NS0", "NS1"}, "nsk")}}
		f.P = nil
		o.Group = "g,flatten"
		if g.pct(70, "fas") {
			o.As = []string{"I0"}
		}
	case 14: // As together with a group on an implementing type
		f.R = []Result{{T: "T0"}}
		o.Group = g.pickStr([]string{"g", "g,flatten", "g,soft"}, "asg")
		o.As = []string{"I0", "I1"}
	case 15: // raw non-function value
		return Op{K: OpProvide, S: s, Raw: g.pickStr(rawValues, "raw"), O: g.maybeOpts()}
	case 16: // LocationForPC oddities, nil info is not expressible; callback
		o.LocPC = g.pickStr([]string{"zero", "junk"}, "loc")
		o.Info, o.CB = g.pct(50, "i"), g.pct(50, "c")
	case 17: // error in a non-final position together with hostile things
		f.Err, f.ErrAt = true, 1
		f.R = append(f.R, g.hostResult("hr3"))
	case 18: // variadic only / variadic of a hostile-ish type
		f.P = nil
		f.Var = g.pickStr(g.k.Types, "vt")
	case 19: // result object nested in result object with malformed inner tag
		f.R = []Result{{IsObj: true, Obj: []Result{{IsObj: true, Obj: []Result{{T: "T0", Tag: g.genTag("rtag2")}}}, {T: "T1"}}}}
	case 20: // Export with hostile things
		o.Export = true
		f.R = []Result{g.hostResult("hr4")}
	case 22: // result object with an unexported field that carries a dig tag
		f.R = []Result{{Host: g.pickStr([]string{"HOutUnexpGroup", "HOutUnexpName", "HOutUnexpFlatten", "HOutUnexp"}, "unexpr")}}
		f.P = nil
	case 23: // parameter object with an unexported field that carries a dig tag
		f.P = []Param{{Host: g.pickStr([]string{"HInUnexpGroup", "HInUnexpOpt", "HInUnexpName", "HInUnexp", "HIgnoreUnexp"}, "unexpp")}}
	default: // As on a result object / on several results
		f.R = []Result{{T: "T0"}, {IsObj: true, Obj: []Result{{T: "T5"}}}}
		o.As = []string{"I0"}
	}
	return Op{K: OpProvide, S: s, F: f, O: o}
}

func (g *gen) maybeOpts() *Opts {
	if !g.pct(40, "mo") {
		return nil
	}
	o := &Opts{}
	switch g.pick(4, "mok") {
	case 0:
		o.Name = g.pickStr(hostileNames, "mon")
	case 1:
		o.Group = g.pickStr(hostileGroups, "mog")
	case 2:
		o.AsRaw = []string{g.pickStr(rawAsValues, "moa")}
	default:
		o.Export = true
		o.Info = true
	}
	return o
}

func (g *gen) genBadDecorate(s int) Op {
	f := g.baseFn(s)
	switch g.pick(10, "bdk") {
	case 9: // flatten on a slice of slices in a decorator (and hostile group tags on slices of slices)
		f.R = []Result{{IsObj: true, Obj: []Result{{Host: g.pickStr([]string{"sliceslice", "slicesliceS0"}, "dss"), Tag: g.pickStr([]string{`group:"g,flatten"`, `group:"g"`, `group:"h,flatten"`}, "dsst")}}}}
		if g.pct(60, "dssp") {
			f.P = []Param{{IsObj: true, Obj: []Param{{T: "T0", Group: "g"}}}}
		}
		return Op{K: OpDecorate, S: s, F: f}
	case 0:
		return Op{K: OpDecorate, S: s, Raw: g.pickStr(rawValues, "raw")}
	case 1: // group result that is not a slice
		f.R = []Result{{IsObj: true, Obj: []Result{{T: "T0", Group: "g"}}}}
	case 2: // flatten in a decorator
		f.R = []Result{{IsObj: true, Obj: []Result{{T: "T0", Group: "g", Flatten: true, N: 1}}}}
	case 3: // hostile result
		f.R = []Result{g.hostResult("dhr")}
	case 4: // hostile param
		f.P = append(f.P, g.hostParam("dhp"))
	case 5: // malformed tags
		bad := Result{T: "T0", Tag: g.genTag("dtag")}
		if g.pct(40, "dtsl") {
			bad.Slice, bad.N = true, g.pick(3, "dtn")
		}
		f.R = []Result{g.withGoodResults(bad, "dg")}
	case 6: // same key twice
		f.R = []Result{{T: "T0"}, {T: "T0"}}
	case 7: // no results
		f.R = nil
		f.Err = g.pct(50, "de")
	default:
		p := g.tagFieldParam("dpt")
		p.Tag = g.genTag("dptag")
		if g.pct(50, "dpslice") {
			p.Group = "g"
		}
		f.P = append(f.P, g.withGoodParams(s, p, "dpg"))
	}
	op := Op{K: OpDecorate, S: s, F: f}
	if g.pct(30, "dinfo") {
		op.O = &Opts{Info: true, CB: g.pct(50, "dcb")}
	}
	return op
}

func (g *gen) genBadInvoke(s int) Op {
	f := g.newFn()
	switch g.pick(8, "bik") {
	case 0:
		return Op{K: OpInvoke, S: s, Raw: g.pickStr(rawValues, "raw")}
	case 1:
		f.P = []Param{g.hostParam("ihp")}
	case 2:
		p := g.tagFieldParam("ipt")
		p.Tag = g.genTag("itag")
		if g.pct(40, "ipslice") {
			p.Group = "g"
		}
		f.P = []Param{g.withGoodParams(s, p, "ipg")}
	case 3:
		f.P = []Param{{IsObj: true, Obj: []Param{{T: "T0", Group: "g", Tag: g.genTag("itag2")}}}}
	case 4:
		f.P = nil
		f.Var = "T0"
	case 5, 6:
		// the nil value of a well-formed function type whose parameters
		// are (mostly) available: rejected, and nothing may run for it
		ipl := g.drawParamLeaves(s, 1+g.pick(3, "nfn"), 95, true)
		f.P = g.encodeParams(ipl)
		f.NilFn = true
	default:
		f.P = []Param{{T: "T0"}, g.hostParam("ihp2")}
		f.R = []Result{g.hostResult("ihr")} // invoked functions may return anything
	}
	op := Op{K: OpInvoke, S: s, F: f}
	if g.pct(30, "iinfo") {
		op.O = &Opts{Info: true}
	}
	return op
}

// genCycleCloser builds a constructor that closes a dependency cycle: it
// provides a key that some registered constructor C is still missing and
// consumes one of C's own outputs. Placing it at an ancestor of C's scope
// yields a cycle that exists only in a descendant's graph.
func (g *gen) genCycleCloser() (Op, bool) {
	type cand struct {
		c    *MFn
		hole MKey
		grp  bool
	}
	var cands []cand
	for _, sc := range g.m.Scopes {
		for _, c := range sc.Ctors {
			for _, l := range c.Leaves {
				if l.IsGroup {
					cands = append(cands, cand{c, l.Key, true})
					continue
				}
				if g.m.NearestProvider(c.View, l.Key) == nil {
					cands = append(cands, cand{c, l.Key, false})
				}
			}
		}
	}
	if len(cands) == 0 {
		return Op{}, false
	}
	cd := cands[g.pick(len(cands), "cc")]
	// scope: C's view or one of its ancestors
	anc := g.m.Anc(cd.c.View)
	s := anc[g.pick(len(anc), "ccs")]
	f := g.newFn()
	// consume one of C's keys (single or group)
	ck := cd.c.Keys()
	k := ck[g.pick(len(ck), "cck")]
	pl := []pleaf{{key: k}}
	if k.Group == "" && g.pct(30, "ccopt") {
		pl[0].opt = true
	}
	if k.Group != "" && g.k.PSoft > 0 && g.pct(35, "ccsoft") {
		pl[0].soft = true // a "cycle" through a soft edge
	}
	f.P = g.encodeParams(pl)
	rl := rleaf{key: cd.hole}
	if isIface(cd.hole.T) {
		rl.impl = Impls[cd.hole.T][0]
	}
	f.R = g.encodeResults([]rleaf{rl}, false)
	o := &Opts{}
	if s != 0 && g.pct(20, "ccexp") {
		o.Export = true
	}
	op := Op{K: OpProvide, S: s, F: f}
	if o.Export {
		op.O = o
	}
	mf := NewMFn(f, op.O, KCtor, s)
	if g.m.DupProvide(mf) == "" && !g.m.DigCycle(mf) {
		g.m.AddCtor(mf)
	}
	return op, true
}

// genShadowCycle builds the pattern in which a dependency cycle exists only
// when every constructor is resolved from its own scope: A (ancestor scope)
// is missing key K; B (strictly below A) consumes an output of A; K gets a
// shadowing provider below A; then a constructor that consumes B's output
// and provides K is exported from B's scope, i.e. lands above A. From B's
// scope nearest-wins picks the shadow, from the root B is invisible; the run-
// time graph A -> closer -> B -> A is nevertheless a real cycle.
func (g *gen) genShadowCycle() ([]Op, bool) {
	type cand struct {
		a, b *MFn
		k    MKey
	}
	var cands []cand
	for _, sc := range g.m.Scopes {
		for _, a := range sc.Ctors {
			for _, l := range a.Leaves {
				if l.IsGroup || g.m.NearestProvider(a.View, l.Key) != nil {
					continue
				}
				for _, sc2 := range g.m.Scopes {
					for _, b := range sc2.Ctors {
						if b == a || b.Home == a.View || !g.m.IsAnc(a.View, b.Home) || b.View != b.Home {
							continue
						}
						for _, bl := range b.Leaves {
							if !bl.IsGroup && a.SlotFor(bl.Key) >= 0 && g.m.NearestProvider(b.View, bl.Key) == a {
								cands = append(cands, cand{a, b, l.Key})
							}
						}
					}
				}
			}
		}
	}
	if len(cands) == 0 {
		return nil, false
	}
	cd := cands[g.pick(len(cands), "shc")]
	s := cd.b.View
	var ops []Op
	// shadowing provider of K in B's scope (unless one exists below A already)
	shadowed := false
	for _, a := range g.m.Anc(s) {
		if a == cd.a.View {
			break
		}
		for _, c := range g.m.Scopes[a].Ctors {
			if c.SlotFor(cd.k) >= 0 {
				shadowed = true
			}
		}
	}
	if !shadowed && g.pct(85, "shadow") {
		f := g.newFn()
		rl := rleaf{key: cd.k}
		if isIface(cd.k.T) {
			rl.impl = Impls[cd.k.T][0]
		}
		f.R = g.encodeResults([]rleaf{rl}, false)
		op := Op{K: OpProvide, S: s, F: f}
		mf := NewMFn(f, nil, KCtor, s)
		if g.m.DupProvide(mf) == "" {
			g.m.AddCtor(mf)
		}
		ops = append(ops, op)
	}
	// the exported closer: consumes one of B's single keys, provides K
	var bk []MKey
	for _, k := range cd.b.Keys() {
		if k.Group == "" {
			bk = append(bk, k)
		}
	}
	if len(bk) == 0 {
		return nil, false
	}
	f := g.newFn()
	f.P = g.encodeParams([]pleaf{{key: bk[g.pick(len(bk), "shbk")]}})
	rl := rleaf{key: cd.k}
	if isIface(cd.k.T) {
		rl.impl = Impls[cd.k.T][0]
	}
	f.R = g.encodeResults([]rleaf{rl}, false)
	op := Op{K: OpProvide, S: s, F: f, O: &Opts{Export: true}}
	mf := NewMFn(f, op.O, KCtor, s)
	if g.m.DupProvide(mf) == "" && !g.m.DigCycle(mf) {
		g.m.AddCtor(mf)
	}
	ops = append(ops, op)
	return ops, true
}

// genDupDecorate: a second decorator for an already decorated key, alone or
// as the 2nd/3rd key of a multi-key decorator.
func (g *gen) genDupDecorate() (Op, bool) {
	type cand struct {
		s int
		k MKey
	}
	var cands []cand
	for _, sc := range g.m.Scopes {
		for k := range sc.Decos {
			cands = append(cands, cand{sc.Idx, k})
		}
	}
	if len(cands) == 0 {
		return Op{}, false
	}
	// deterministic order
	sortCands := func() {
		for i := range cands {
			for j := i + 1; j < len(cands); j++ {
				a, b := cands[i], cands[j]
				if a.s > b.s || (a.s == b.s && fmt.Sprint(a.k) > fmt.Sprint(b.k)) {
					cands[i], cands[j] = cands[j], cands[i]
				}
			}
		}
	}
	sortCands()
	cd := cands[g.pick(len(cands), "dd")]
	f := g.newFn()
	if g.pct(25, "ddtwice") {
		// one decorator that returns the same (so far undecorated) key twice
		singles, _ := g.keysFrom(cd.s, false)
		var free []MKey
		for _, k := range singles {
			if _, taken := g.m.Scopes[cd.s].Decos[k]; !taken {
				free = append(free, k)
			}
		}
		if len(free) > 0 {
			k := free[g.pick(len(free), "ddtk")]
			l := rleaf{key: k}
			if isIface(k.T) {
				l.impl = Impls[k.T][0]
			}
			f.R = g.encodeResults([]rleaf{l, l}, false)
			if g.pct(60, "ddtself") {
				f.P = g.encodeParams([]pleaf{{key: k}})
			}
			return Op{K: OpDecorate, S: cd.s, F: f}, true
		}
	}
	var rl []rleaf
	singles, _ := g.keysFrom(cd.s, false)
	nfresh := g.pick(3, "ddn")
	for i := 0; i < nfresh && len(singles) > 0; i++ {
		k := singles[g.pick(len(singles), fmt.Sprintf("ddk%d", i))]
		if k == cd.k {
			continue
		}
		dupe := false
		for _, r := range rl {
			if r.key == k {
				dupe = true
			}
		}
		if _, taken := g.m.Scopes[cd.s].Decos[k]; taken || dupe {
			continue
		}
		l := rleaf{key: k}
		if isIface(k.T) {
			l.impl = Impls[k.T][0]
		}
		rl = append(rl, l)
	}
	l := rleaf{key: cd.k}
	if cd.k.Group != "" {
		l.slice, l.n = true, 1
	}
	if isIface(cd.k.T) {
		l.impl = Impls[cd.k.T][0]
	}
	rl = append(rl, l) // conflicting key last
	var pl []pleaf
	for _, r := range rl {
		if g.pct(60, "ddself") {
			pl = append(pl, pleaf{key: r.key})
		}
	}
	f.P = g.encodeParams(pl)
	f.R = g.encodeResults(rl, false)
	return Op{K: OpDecorate, S: cd.s, F: f}, true
}

package harness

import (
	"fmt"
	"go.uber.org/dig"
	"reflect"
	"sort"
)

// ---------------------------------------------------------------------------
// Static type pool. Every value that travels through dig in a generated case
// is of one of these types and carries a token (Tok) identifying the
// execution and result slot that produced it. Tok == 0 / nil pointer / nil
// interface is "the zero value".
// ---------------------------------------------------------------------------

type T0 struct{ Tok int64 }
type T1 struct{ Tok int64 }
type T2 struct{ Tok int64 }
type T3 struct{ Tok int64 }
type T4 struct{ Tok int64 }
type T5 struct{ Tok int64 }

// L0 is a slice type used as an ordinary single value (its first element
// carries the token): `[]*T0` as a plain dependency must never be confused
// with the value group of *T0, whose parameters have the same Go type.
type L0 = []*T0

// TX is never used by generated signatures: functions registered from inside
// user code (Fn.Side) provide / decorate it.
type TX struct{ Tok int64 }

// Non-pointer value types (zero value is S0{0}).
type S0 struct{ Tok int64 }
type S1 struct{ Tok int64 }

// SN is an ordinary struct value that happens to have *named* (not embedded)
// fields of type dig.In and dig.Out: it is a plain dependency type, not a
// parameter / result object.
type SN struct {
	In  dig.In
	Out dig.Out
	Tok int64
}

type I0 interface{ M0() }
type I1 interface{ M1() }
type I2 interface{ M2() }

// I01 embeds I0 and I1: an interface type that itself implements other
// interfaces (a result of type I01 may be provided As(I0), As(I1), As(I01)).
type I01 interface {
	M0()
	M1()
}

// implements matrix: *T0: I0,I1,I01   *T1: I0   *T2: I1,I2   *T3: I2   *T4: -   *T5: I0,I1,I2,I01
func (*T0) M0() {}
func (*T0) M1() {}
func (*T1) M0() {}
func (*T2) M1() {}
func (*T2) M2() {}
func (*T3) M2() {}
func (*T5) M0() {}
func (*T5) M1() {}
func (*T5) M2() {}

// TE is only ever the dynamic type behind an I0 / I2 result: it implements
// error as well, which must not make dig take a successful result for a failure.
type TE struct{ Tok int64 }

func (*TE) M0()           {}
func (*TE) M2()           {}
func (*TE) Error() string { return "TE is a value, not a failure" }

// NS0 is a named slice type with a method (implements I0); used by the
// bad-input grammar (flatten + As).
type NS0 []*T0

func (NS0) M0() {}

// NS1: a named slice that implements I0 although its elements (S0) do not.
type NS1 []S0

func (NS1) M0() {}

// Hostile types for the bad-input / visualize grammars.
type HChan <-chan int
type HUnexp struct{ x int } //nolint:unused

type typeInfo struct {
	Name  string
	RT    reflect.Type
	Iface bool
	// for concrete types: make a value carrying tok
	mk func(tok int64) reflect.Value
}

var pool = buildPool()
var poolNames []string

func regPtr[T any](pool map[string]*typeInfo, name string, mk func(tok int64) *T) {
	pool[name] = &typeInfo{Name: name, RT: reflect.TypeOf((*T)(nil)), mk: func(tok int64) reflect.Value { return reflect.ValueOf(mk(tok)) }}
}

func buildPool() map[string]*typeInfo {
	pool := map[string]*typeInfo{}
	regPtr(pool, "T0", func(t int64) *T0 { return &T0{t} })
	regPtr(pool, "T1", func(t int64) *T1 { return &T1{t} })
	regPtr(pool, "T2", func(t int64) *T2 { return &T2{t} })
	regPtr(pool, "T3", func(t int64) *T3 { return &T3{t} })
	regPtr(pool, "T4", func(t int64) *T4 { return &T4{t} })
	regPtr(pool, "T5", func(t int64) *T5 { return &T5{t} })
	regPtr(pool, "TE", func(t int64) *TE { return &TE{t} })
	pool["S0"] = &typeInfo{Name: "S0", RT: reflect.TypeOf(S0{}), mk: func(t int64) reflect.Value { return reflect.ValueOf(S0{t}) }}
	pool["SN"] = &typeInfo{Name: "SN", RT: reflect.TypeOf(SN{}), mk: func(t int64) reflect.Value { return reflect.ValueOf(SN{Tok: t}) }}
	pool["S1"] = &typeInfo{Name: "S1", RT: reflect.TypeOf(S1{}), mk: func(t int64) reflect.Value { return reflect.ValueOf(S1{t}) }}
	pool["L0"] = &typeInfo{Name: "L0", RT: reflect.TypeOf(L0(nil)), mk: func(t int64) reflect.Value { return reflect.ValueOf(L0{&T0{t}}) }}
	pool["I0"] = &typeInfo{Name: "I0", RT: reflect.TypeOf((*I0)(nil)).Elem(), Iface: true}
	pool["I1"] = &typeInfo{Name: "I1", RT: reflect.TypeOf((*I1)(nil)).Elem(), Iface: true}
	pool["I2"] = &typeInfo{Name: "I2", RT: reflect.TypeOf((*I2)(nil)).Elem(), Iface: true}
	pool["I01"] = &typeInfo{Name: "I01", RT: reflect.TypeOf((*I01)(nil)).Elem(), Iface: true}
	return pool
}

func init() {
	for n := range pool {
		poolNames = append(poolNames, n)
	}
	sort.Strings(poolNames)
}

// ConcreteTypes / IfaceTypes in deterministic order.
var ConcreteTypes = []string{"T0", "T1", "T2", "T3", "T4", "T5", "S0", "S1", "L0", "SN"}
var IfaceTypes = []string{"I0", "I1", "I2", "I01"}

// Impls lists for each interface the concrete pool types implementing it.
var Impls = map[string][]string{
	"I0":  {"T0", "T1", "T5", "TE"},
	"I1":  {"T0", "T2", "T5"},
	"I2":  {"T2", "T3", "T5", "TE"},
	"I01": {"T0", "T5"},
}

// IfacesOf lists interfaces implemented by a concrete type.
var IfacesOf = map[string][]string{
	"T0": {"I0", "I1", "I01"}, "T1": {"I0"}, "T2": {"I1", "I2"}, "T3": {"I2"}, "T4": {}, "T5": {"I0", "I1", "I2", "I01"}, "S0": {}, "S1": {}, "L0": {}, "SN": {}, "TE": {"I0", "I2"},
	// an interface type implements the interfaces whose methods it has
	"I01": {"I0", "I1", "I01"},
}

func implements(concrete, iface string) bool {
	for _, i := range IfacesOf[concrete] {
		if i == iface {
			return true
		}
	}
	return false
}

func isIface(name string) bool { ti, ok := pool[name]; return ok && ti.Iface }

func rtype(name string) reflect.Type {
	ti, ok := pool[name]
	if !ok {
		panic("unknown pool type " + name)
	}
	return ti.RT
}

// asPtr returns the `new(Iface)` argument for dig.As.
func asPtr(name string) interface{} {
	return reflect.New(rtype(name)).Interface()
}

// mkValue builds a value of static type `typ` (concrete or interface); for an
// interface the dynamic type is `impl`.
func mkValue(typ, impl string, tok int64) reflect.Value {
	ti := pool[typ]
	if ti == nil {
		panic("unknown type " + typ)
	}
	if !ti.Iface {
		return ti.mk(tok)
	}
	if impl == "" {
		impl = Impls[typ][0]
	}
	v := reflect.New(ti.RT).Elem()
	v.Set(pool[impl].mk(tok))
	return v
}

// tokOf decodes the token carried by a pool value. ok=false for values of
// foreign types. A zero value decodes to 0.
func tokOf(v reflect.Value) (tok int64, ok bool) {
	if !v.IsValid() {
		return 0, false
	}
	if v.Kind() == reflect.Interface {
		if v.IsNil() {
			return 0, true
		}
		v = v.Elem()
	}
	switch x := v.Interface().(type) {
	case *T0:
		if x == nil {
			return 0, true
		}
		return x.Tok, true
	case *T1:
		if x == nil {
			return 0, true
		}
		return x.Tok, true
	case *T2:
		if x == nil {
			return 0, true
		}
		return x.Tok, true
	case *T3:
		if x == nil {
			return 0, true
		}
		return x.Tok, true
	case *T4:
		if x == nil {
			return 0, true
		}
		return x.Tok, true
	case *TE:
		if x == nil {
			return 0, true
		}
		return x.Tok, true
	case *T5:
		if x == nil {
			return 0, true
		}
		return x.Tok, true
	case S0:
		return x.Tok, true
	case S1:
		return x.Tok, true
	case SN:
		return x.Tok, true
	case L0:
		if len(x) == 0 || x[0] == nil {
			return 0, true
		}
		return x[0].Tok, true
	}
	return 0, false
}

// dynTypeName returns the pool name of the dynamic type of v ("" if nil).
func dynTypeName(v reflect.Value) string {
	if v.Kind() == reflect.Interface {
		if v.IsNil() {
			return ""
		}
		v = v.Elem()
	}
	t := v.Type()
	for _, n := range ConcreteTypes {
		if pool[n].RT == t {
			return n
		}
	}
	return fmt.Sprint(t)
}

// ---------------------------------------------------------------------------
// Hostile types (bad-input grammar, C14; also label escaping in C19)
// ---------------------------------------------------------------------------

type HIn0 struct {
	dig.In
	A *T0
}
type HOut0 struct {
	dig.Out
	A *T0
}
type HInPtr struct {
	*dig.In
	A *T0
}
type HOutPtr struct {
	*dig.Out
	A *T0
}
type HInOut struct {
	dig.In
	dig.Out
	A *T0
}
type HInUnexp struct {
	dig.In
	a *T0 //nolint:unused
	B *T1
}
type HOutUnexp struct {
	dig.Out
	a *T0 //nolint:unused
	B *T1
}
type HIgnoreUnexp struct {
	dig.In `ignore-unexported:"true"`
	a      *T0 //nolint:unused
	B      *T1
}
type HIgnoreBad struct {
	dig.In `ignore-unexported:"maybe"`
	B      *T1
}
type HInDeep struct{ HIn0 }
type HOutDeep struct{ HOut0 }
type HOutErr struct {
	dig.Out
	E error
	A *T0
}
type HInErr struct {
	dig.In
	E error
}
type HInNestedPtr struct {
	dig.In
	P *HIn0
}
type HOutNestedPtr struct {
	dig.Out
	P *HOut0
}
type HOutIn struct {
	dig.Out
	I HIn0
}
type HInOutField struct {
	dig.In
	O HOut0
}
type HPlain struct{ X int }

// unexported fields that carry dig tags (must be rejected like any other
// unexported field of an In/Out struct, whatever the tag says)
type HOutUnexpGroup struct {
	dig.Out
	a *T0 `group:"g"` //nolint:unused
	B *T1
}
type HOutUnexpName struct {
	dig.Out
	a *T0 `name:"a"` //nolint:unused
	B *T1
}
type HOutUnexpFlatten struct {
	dig.Out
	a []*T0 `group:"g,flatten"` //nolint:unused
	B *T1
}
type HInUnexpGroup struct {
	dig.In
	a []*T0 `group:"g"` //nolint:unused
	B *T1
}
type HInUnexpOpt struct {
	dig.In
	a *T0 `optional:"true"` //nolint:unused
	B *T1
}
type HInUnexpName struct {
	dig.In
	B *T1
	a *T0 `name:"a"` //nolint:unused
}

// concrete types that implement error (dig treats such a result as the
// function's error result): non-nilable kinds included
type HErrVal struct{ X int }

func (HErrVal) Error() string { return "HErrVal" }

type HErrPtr struct{ X int }

func (*HErrPtr) Error() string { return "HErrPtr" }

type HErrSlice []int

func (HErrSlice) Error() string { return "HErrSlice" }

type HErrInt int

func (HErrInt) Error() string { return "HErrInt" }

type HErrIface interface {
	error
	Extra()
}

func init() {
	hostiles["chan"] = reflect.TypeOf((<-chan int)(nil))
	hostiles["bichan"] = reflect.TypeOf((chan *T0)(nil))
	hostiles["map"] = reflect.TypeOf(map[string]*T0(nil))
	hostiles["func"] = reflect.TypeOf(func() {})
	hostiles["funcarg"] = reflect.TypeOf(func(*T0) *T1 { return nil })
	hostiles["inval"] = reflect.TypeOf(dig.In{})
	hostiles["inptr"] = reflect.TypeOf(&dig.In{})
	hostiles["outval"] = reflect.TypeOf(dig.Out{})
	hostiles["outptr"] = reflect.TypeOf(&dig.Out{})
	hostiles["HIn0"] = reflect.TypeOf(HIn0{})
	hostiles["HOut0"] = reflect.TypeOf(HOut0{})
	hostiles["PIn0"] = reflect.TypeOf(&HIn0{})
	hostiles["POut0"] = reflect.TypeOf(&HOut0{})
	hostiles["HInPtr"] = reflect.TypeOf(HInPtr{})
	hostiles["HOutPtr"] = reflect.TypeOf(HOutPtr{})
	hostiles["HInOut"] = reflect.TypeOf(HInOut{})
	hostiles["HInUnexp"] = reflect.TypeOf(HInUnexp{})
	hostiles["HOutUnexp"] = reflect.TypeOf(HOutUnexp{})
	hostiles["HIgnoreUnexp"] = reflect.TypeOf(HIgnoreUnexp{})
	hostiles["HIgnoreBad"] = reflect.TypeOf(HIgnoreBad{})
	hostiles["HInDeep"] = reflect.TypeOf(HInDeep{})
	hostiles["HOutDeep"] = reflect.TypeOf(HOutDeep{})
	hostiles["HOutErr"] = reflect.TypeOf(HOutErr{})
	hostiles["HInErr"] = reflect.TypeOf(HInErr{})
	hostiles["HInNestedPtr"] = reflect.TypeOf(HInNestedPtr{})
	hostiles["HOutNestedPtr"] = reflect.TypeOf(HOutNestedPtr{})
	hostiles["HOutIn"] = reflect.TypeOf(HOutIn{})
	hostiles["HInOutField"] = reflect.TypeOf(HInOutField{})
	hostiles["HPlain"] = reflect.TypeOf(HPlain{})
	hostiles["HOutUnexpGroup"] = reflect.TypeOf(HOutUnexpGroup{})
	hostiles["HOutUnexpName"] = reflect.TypeOf(HOutUnexpName{})
	hostiles["HOutUnexpFlatten"] = reflect.TypeOf(HOutUnexpFlatten{})
	hostiles["HInUnexpGroup"] = reflect.TypeOf(HInUnexpGroup{})
	hostiles["HInUnexpOpt"] = reflect.TypeOf(HInUnexpOpt{})
	hostiles["HInUnexpName"] = reflect.TypeOf(HInUnexpName{})
	hostiles["PPlain"] = reflect.TypeOf(&HPlain{})
	hostiles["error"] = reflect.TypeOf((*error)(nil)).Elem()
	hostiles["any"] = reflect.TypeOf((*interface{})(nil)).Elem()
	hostiles["NS0"] = reflect.TypeOf(NS0(nil))
	hostiles["NS1"] = reflect.TypeOf(NS1(nil))
	hostiles["arr"] = reflect.TypeOf([2]*T0{})
	hostiles["pp"] = reflect.TypeOf((**T0)(nil))
	hostiles["int"] = reflect.TypeOf(0)
	hostiles["string"] = reflect.TypeOf("")
	hostiles["slice"] = reflect.TypeOf([]*T0(nil))
	hostiles["sliceI0"] = reflect.TypeOf([]I0(nil))
	hostiles["unsafe"] = reflect.TypeOf(uintptr(0))
	hostiles["sliceslice"] = reflect.TypeOf([][]*T0(nil))
	hostiles["slicesliceS0"] = reflect.TypeOf([][]S0(nil))
	hostiles["HErrVal"] = reflect.TypeOf(HErrVal{})
	hostiles["HErrPtr"] = reflect.TypeOf(&HErrPtr{})
	hostiles["HErrSlice"] = reflect.TypeOf(HErrSlice(nil))
	hostiles["HErrInt"] = reflect.TypeOf(HErrInt(0))
	hostiles["HErrIface"] = reflect.TypeOf((*HErrIface)(nil)).Elem()
	for n := range hostiles {
		HostileNames = append(HostileNames, n)
	}
	sort.Strings(HostileNames)
}

var HostileNames []string

// ---------------------------------------------------------------------------
// Declared parameter objects with `ignore-unexported:"true"` and unexported
// fields between the exported ones (reflect.StructOf cannot build those).
// Exported fields are named F<i>, i = index in the template's field list, so
// that the probe can decode them by name. Unexported fields must be skipped
// by dig and left at their zero value.
// ---------------------------------------------------------------------------

type IU0 struct {
	dig.In `ignore-unexported:"true"`
	x      *T0 //nolint:unused
	F0     *T1
	y      int //nolint:unused
	F1     *T2 `optional:"true"`
	z      *T3 //nolint:unused
}
type IU1 struct {
	dig.In `ignore-unexported:"true"`
	F0     *T0
	u      string //nolint:unused
	F1     []*T1  `group:"g"`
}
type IU2 struct {
	dig.In `ignore-unexported:"true"`
	a, b   *T2 //nolint:unused
	F0     *T2 `name:"a"`
	F1     *T0
}
type IU3 struct {
	dig.In `ignore-unexported:"true"`
	F0     *T3
	hidden *T3 //nolint:unused
	F1     I0
}
type IU4 struct {
	dig.In `ignore-unexported:"true"`
	w      *T1 //nolint:unused
	F0     IU0
	F1     *T1 `optional:"true"`
}
type IU5 struct {
	dig.In `ignore-unexported:"true"`
	q      []*T0 //nolint:unused
	F0     []*T0 `group:"g,soft"`
	v      *T1   //nolint:unused
	F1     *T1
}

// Parameter objects that get their dig.In only through embedded In structs
// (two at the same depth; or next to a plain field that happens to be named In).
type EIn1 struct {
	dig.In
	F0 *T0
}
type EIn2 struct {
	dig.In
	F0 *T1 `optional:"true"`
}
type EE0 struct {
	EIn1
	EIn2
}
type EF0 struct {
	In *T2
	EIn1
}

// IU6: an unexported field declared BEFORE the embedded dig.In.
type IU6 struct {
	x      *T0 //nolint:unused
	dig.In `ignore-unexported:"true"`
	F0     *T1
	y      []*T2 //nolint:unused
	F1     *T2   `name:"a"`
}

type declIn struct {
	RT     reflect.Type
	Fields []Param
	Names  []string // struct field name of each template field (default F<i>)
}

func (d declIn) fieldName(i int) string {
	if i < len(d.Names) {
		return d.Names[i]
	}
	return fmt.Sprintf("F%d", i)
}

var declIns = map[string]declIn{}
var DeclInNames = []string{"IU0", "IU1", "IU2", "IU3", "IU4", "IU5", "IU6", "EE0", "EF0"}

func init() {
	iu0 := []Param{{T: "T1"}, {T: "T2", Opt: true}}
	declIns["IU0"] = declIn{RT: reflect.TypeOf(IU0{}), Fields: iu0}
	declIns["IU1"] = declIn{RT: reflect.TypeOf(IU1{}), Fields: []Param{{T: "T0"}, {T: "T1", Group: "g"}}}
	declIns["IU2"] = declIn{RT: reflect.TypeOf(IU2{}), Fields: []Param{{T: "T2", Name: "a"}, {T: "T0"}}}
	declIns["IU3"] = declIn{RT: reflect.TypeOf(IU3{}), Fields: []Param{{T: "T3"}, {T: "I0"}}}
	declIns["IU4"] = declIn{RT: reflect.TypeOf(IU4{}), Fields: []Param{{IsObj: true, Decl: "IU0", Obj: iu0}, {T: "T1", Opt: true}}}
	declIns["IU5"] = declIn{RT: reflect.TypeOf(IU5{}), Fields: []Param{{T: "T0", Group: "g", Soft: true}, {T: "T1"}}}
	declIns["IU6"] = declIn{RT: reflect.TypeOf(IU6{}), Fields: []Param{{T: "T1"}, {T: "T2", Name: "a"}}}
	e1 := []Param{{T: "T0"}}
	e2 := []Param{{T: "T1", Opt: true}}
	declIns["EIn1"] = declIn{RT: reflect.TypeOf(EIn1{}), Fields: e1}
	declIns["EIn2"] = declIn{RT: reflect.TypeOf(EIn2{}), Fields: e2}
	declIns["EE0"] = declIn{RT: reflect.TypeOf(EE0{}), Names: []string{"EIn1", "EIn2"},
		Fields: []Param{{IsObj: true, Decl: "EIn1", Obj: e1}, {IsObj: true, Decl: "EIn2", Obj: e2}}}
	declIns["EF0"] = declIn{RT: reflect.TypeOf(EF0{}), Names: []string{"In", "EIn1"},
		Fields: []Param{{T: "T2"}, {IsObj: true, Decl: "EIn1", Obj: e1}}}
}

// DeclParam returns the IR parameter for a declared parameter object.
func DeclParam(name string) Param {
	d := declIns[name]
	c := (&Case{Ops: []Op{{F: &Fn{P: []Param{{IsObj: true, Decl: name, Obj: d.Fields}}}}}}).Clone()
	return c.Ops[0].F.P[0]
}

// unexportedZero reports whether every unexported field of a declared
// parameter object (recursively) still holds its zero value.
func unexportedZero(v reflect.Value) bool {
	t := v.Type()
	for i := 0; i < t.NumField(); i++ {
		f := t.Field(i)
		if f.Anonymous {
			continue
		}
		if f.PkgPath != "" { // unexported
			if !v.Field(i).IsZero() {
				return false
			}
			continue
		}
		if f.Type.Kind() == reflect.Struct && dig.IsIn(f.Type) {
			if !unexportedZero(v.Field(i)) {
				return false
			}
		}
	}
	return true
}

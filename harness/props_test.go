package harness

import (
	"encoding/json"
	"fmt"
	"os"
	"strings"
	"sync"
	"testing"

	"pgregory.net/rapid"
)

// Environment protocol with the driver (/verif/check):
//   VERIF_PROP      property id to run (TestProp) / default for replay
//   VERIF_TIER      quick | thorough
//   VERIF_STATS     path where the shard writes its Stats JSON
//   VERIF_FAILOUT   path where a (shrunk) failing case is written
//   VERIF_REPLAY    path of an IR case to replay (TestReplay)

type failKeeper struct {
	mu     sync.Mutex
	best   *Case
	msg    string
	clause string
}

func (k *failKeeper) offer(c *Case, msg string) {
	k.mu.Lock()
	defer k.mu.Unlock()
	if k.best == nil || len(c.JSON()) <= len(k.best.JSON()) {
		k.best = c.Clone()
		k.msg = msg
	}
}

func (k *failKeeper) offerF(c *Case, f *Failure) {
	k.offer(c, f.Error())
	k.mu.Lock()
	if k.msg == f.Error() {
		k.clause = f.Clause
	}
	k.mu.Unlock()
}

func TestProp(t *testing.T) {
	id := os.Getenv("VERIF_PROP")
	p := Props[id]
	if p == nil {
		t.Skipf("VERIF_PROP=%q: no such property", id)
	}
	thorough := os.Getenv("VERIF_TIER") == "thorough"
	st := NewStats(id)
	fk := &failKeeper{}
	defer func() {
		if path := os.Getenv("VERIF_STATS"); path != "" {
			st.Failed = t.Failed()
			st.FailMsg = fk.msg
			if err := st.Write(path); err != nil {
				t.Logf("stats: %v", err)
			}
		}
		if path := os.Getenv("VERIF_FAILOUT"); path != "" && fk.best != nil && t.Failed() {
			// IR-level minimisation on top of rapid's shrinking
			if fk.clause != "" && fk.best.Graph == nil {
				clause := fk.clause
				mst := NewStats(id)
				min := MinimizeCase(fk.best, func(c *Case) bool {
					f := p.Check(c, mst)
					return f != nil && f.Clause == clause
				}, 400)
				if f := p.Check(min, mst); f != nil {
					fk.best, fk.msg = min, f.Error()
				}
			}
			fk.best.Prop = id
			fk.best.Note = fk.msg
			os.WriteFile(path, fk.best.Pretty(), 0o644)
		}
	}()
	if p.Pre != nil {
		if c, f := p.Pre(st, envInt("VERIF_SHARD", 0), envInt("VERIF_SHARDS", 1), thorough); f != nil {
			if c == nil {
				c = &Case{}
			}
			c.Prop, c.Note = id, f.Error()
			fk.offer(c, f.Error())
			t.Fatalf("%s violated (exhaustive part): %s", id, f.Error())
		}
	}
	rapid.Check(t, func(rt *rapid.T) {
		c := p.Gen(rt, thorough)
		c.Prop = id
		if f := p.Check(c, st); f != nil {
			fk.offerF(c, f)
			rt.Fatalf("%s violated: %s\ncase: %s", id, f.Error(), c.Short())
		}
	})
}

// TestReplay re-runs one saved IR case through the property's check with no
// generator or shrinker in between.
func TestReplay(t *testing.T) {
	path := os.Getenv("VERIF_REPLAY")
	if path == "" {
		t.Skip("VERIF_REPLAY not set")
	}
	c, err := LoadCase(path)
	if err != nil {
		fmt.Printf("REPLAY-LOAD-ERROR file=%s: %v\n", path, err)
		t.Fatalf("load %s: %v", path, err)
	}
	id := c.Prop
	if v := os.Getenv("VERIF_PROP"); v != "" {
		id = v
	}
	p := Props[id]
	if p == nil {
		t.Fatalf("replay %s: unknown property %q", path, id)
	}
	st := NewStats(id)
	f := p.Check(c, st)
	if out := os.Getenv("VERIF_STATS"); out != "" {
		st.Write(out)
	}
	if f != nil {
		fmt.Printf("REPLAY-FAIL property=%s clause=%s file=%s\n", id, f.Clause, path)
		t.Fatalf("%s violated by %s: %s", id, path, f.Error())
	}
	fmt.Printf("REPLAY-OK property=%s file=%s\n", id, path)
}

// TestDump prints a few generated cases (development aid).
func TestDump(t *testing.T) {
	id := os.Getenv("VERIF_PROP")
	p := Props[id]
	if p == nil || os.Getenv("VERIF_DUMP") == "" {
		t.Skip()
	}
	n := 0
	rapid.Check(t, func(rt *rapid.T) {
		c := p.Gen(rt, false)
		if n < 5 {
			b, _ := json.Marshal(c)
			fmt.Println(c.Short())
			_ = b
		}
		n++
	})
}

// TestChild executes a case prefix in this (child) process; the parent only
// looks at whether the process survives.
func TestChild(t *testing.T) {
	path := os.Getenv("VERIF_CHILD")
	if path == "" {
		t.Skip()
	}
	debugSetMaxStack()
	if err := RunChild(path); err != nil {
		t.Fatal(err)
	}
}

// TestGenQuality prints per-invoke statistics of a generator (development aid).
func TestGenQuality(t *testing.T) {
	id := os.Getenv("VERIF_PROP")
	p := Props[id]
	if p == nil || os.Getenv("VERIF_DUMP") == "" {
		t.Skip()
	}
	var missDirect, inv, ok, miss, zone, ran1, ran2, ran3, ran5, nops, ncase, rejected, regs int
	rapid.Check(t, func(rt *rapid.T) {
		c := p.Gen(rt, false)
		tr := Run(c, RunOpts{})
		v := Validate(c, tr, VOpts{})
		ncase++
		nops += len(c.Ops)
		for i, op := range c.Ops {
			if op.K == OpProvide || op.K == OpDecorate {
				regs++
				if tr.Ops[i].Class != ClOK {
					rejected++
				}
			}
		}
		for _, ii := range v.Invokes {
			inv++
			switch {
			case ii.Zones.Any():
				zone++
			case ii.Avail:
				ok++
			default:
				miss++
				direct := false
				for _, l := range ii.Fn.Leaves {
					if !l.Opt && !l.IsGroup && v.M.NearestProvider(ii.Fn.View, l.Key) == nil && v.M.NearestDeco(ii.Fn.View, l.Key, nil) == nil {
						direct = true
					}
				}
				if direct {
					missDirect++
				}
			}
			n := len(ii.RanOK)
			if n >= 1 {
				ran1++
			}
			if n >= 2 {
				ran2++
			}
			if n >= 3 {
				ran3++
			}
			if n >= 5 {
				ran5++
			}
		}
	})
	fmt.Printf("cases=%d ops/case=%.1f regs=%d rejected=%d invokes=%d ok=%d miss=%d zone=%d ran>=1:%d >=2:%d >=3:%d >=5:%d missDirect=%d\n",
		ncase, float64(nops)/float64(ncase), regs, rejected, inv, ok, miss, zone, ran1, ran2, ran3, ran5, missDirect)
}

func TestRejectReasons(t *testing.T) {
	id := os.Getenv("VERIF_PROP")
	p := Props[id]
	if p == nil || os.Getenv("VERIF_DUMP") == "" {
		t.Skip()
	}
	reasons := map[string]int{}
	examples := map[string]string{}
	rapid.Check(t, func(rt *rapid.T) {
		c := p.Gen(rt, false)
		tr := Run(c, RunOpts{})
		for i, op := range c.Ops {
			if (op.K == OpProvide || op.K == OpDecorate) && tr.Ops[i].Err != nil {
				msg := tr.Ops[i].Err.Error()
				// strip function location
				if j := strings.Index(msg, "): "); j >= 0 {
					msg = msg[j+3:]
				}
				if len(msg) > 60 {
					msg = msg[:60]
				}
				reasons[op.K+": "+msg]++
				examples[op.K+": "+msg] = op.Short() + " :: " + tr.Ops[i].Err.Error()
			}
		}
	})
	for k, v := range reasons {
		fmt.Printf("%6d %s\n        e.g. %s\n", v, k, examples[k])
	}
}

// TestMeta prints the rule / assumptions of a property for the driver.
func TestMeta(t *testing.T) {
	if os.Getenv("VERIF_META") == "" {
		t.Skip()
	}
	p := Props[os.Getenv("VERIF_PROP")]
	if p == nil {
		t.Skip()
	}
	b, _ := json.Marshal(map[string]interface{}{"rule": p.Rule, "assumptions": p.Assumptions})
	fmt.Printf("META %s\n", b)
}

// TestShort prints the one-line rendering of a saved case.
func TestShort(t *testing.T) {
	path := os.Getenv("VERIF_SHORT")
	if path == "" {
		t.Skip()
	}
	c, err := LoadCase(path)
	if err != nil {
		t.Fatal(err)
	}
	fmt.Println(c.Short())
	if os.Getenv("VERIF_TRACE") != "" {
		tr := Run(c, RunOpts{})
		for i, op := range c.Ops {
			fmt.Printf("%d %s => %s %v\n", i, op.Short(), tr.Ops[i].Class, tr.Ops[i].Err)
			for _, e := range tr.Events(i) {
				if e.Kind == EvEnter {
					var as []string
					for _, a := range e.Args {
						as = append(as, tr.RT.ProvString(a))
					}
					fmt.Printf("      enter f%d#%d %v\n", e.Fn, e.Exec, as)
				} else if e.Kind == EvExit {
					fmt.Printf("      exit  f%d#%d outcome=%d\n", e.Fn, e.Exec, e.Outcome)
				} else {
					fmt.Printf("      cb    f%d %s err=%v rt=%v\n", e.Fn, e.CBName, e.CBErr, e.CBRuntime)
				}
			}
		}
	}
}

package harness

// ---------------------------------------------------------------------------
// IR-level minimisation of a failing case (after rapid's own shrinking):
// greedy delta debugging over operations and over the pieces of each
// function. A candidate is kept when the check still fails with the same
// clause. The result is what gets written as the replay file.
// ---------------------------------------------------------------------------

// removeOp returns a copy of c without op i, or nil when op i cannot be
// removed (a scope that is still referenced).
func removeOp(c *Case, i int) *Case {
	op := c.Ops[i]
	// scope index created by op i
	scopeIdx := -1
	n := 0
	for j, o := range c.Ops {
		if o.K == OpScope {
			n++
			if j == i {
				scopeIdx = n
			}
		}
	}
	if op.K == OpScope {
		for j, o := range c.Ops {
			if j != i && o.S == scopeIdx {
				return nil
			}
		}
	}
	out := c.Clone()
	out.Ops = append(out.Ops[:i], out.Ops[i+1:]...)
	for j := range out.Ops {
		o := &out.Ops[j]
		if scopeIdx > 0 && o.S > scopeIdx {
			o.S--
		}
		if o.ErrOf != nil {
			e := *o.ErrOf
			switch {
			case e == i:
				o.ErrOf = nil
			case e > i:
				e--
				o.ErrOf = &e
			}
		}
	}
	if out.Variant != nil {
		if out.Variant.Alt != nil {
			alt := map[int]*AltOp{}
			for k, v := range out.Variant.Alt {
				switch {
				case k < i:
					alt[k] = v
				case k > i:
					alt[k-1] = v
				}
			}
			out.Variant.Alt = alt
		}
		if len(out.Variant.Perm) > i {
			out.Variant.Perm = append(out.Variant.Perm[:i], out.Variant.Perm[i+1:]...)
		}
	}
	return out
}

// fnVariants yields simpler versions of a function.
func fnVariants(f *Fn) []*Fn {
	var out []*Fn
	clone := func() *Fn {
		c := (&Case{Ops: []Op{{F: f}}}).Clone()
		return c.Ops[0].F
	}
	for i := range f.P {
		g := clone()
		g.P = append(g.P[:i], g.P[i+1:]...)
		out = append(out, g)
		if f.P[i].isObj() && f.P[i].Decl == "" {
			// drop one field / unwrap a single plain field
			for j := range f.P[i].Obj {
				g := clone()
				g.P[i].Obj = append(g.P[i].Obj[:j], g.P[i].Obj[j+1:]...)
				out = append(out, g)
			}
			if len(f.P[i].Obj) == 1 {
				g := clone()
				g.P[i] = f.P[i].Obj[0]
				if g.P[i].isObj() || (g.P[i].Name == "" && !g.P[i].Opt && g.P[i].Group == "" && g.P[i].Tag == "") {
					out = append(out, g)
				}
			}
		}
	}
	if len(f.R) > 1 {
		for i := range f.R {
			g := clone()
			g.R = append(g.R[:i], g.R[i+1:]...)
			out = append(out, g)
		}
	}
	for i := range f.R {
		if f.R[i].isObj() {
			if len(f.R[i].Obj) > 1 {
				for j := range f.R[i].Obj {
					g := clone()
					g.R[i].Obj = append(g.R[i].Obj[:j], g.R[i].Obj[j+1:]...)
					out = append(out, g)
				}
			}
			if len(f.R[i].Obj) == 1 {
				g := clone()
				g.R[i] = f.R[i].Obj[0]
				if g.R[i].isObj() || (g.R[i].Name == "" && g.R[i].Group == "" && g.R[i].Tag == "") {
					out = append(out, g)
				}
			}
		}
	}
	if len(f.Faults) > 0 {
		g := clone()
		g.Faults = g.Faults[:len(g.Faults)-1]
		out = append(out, g)
	}
	if f.Var != "" {
		g := clone()
		g.Var = ""
		out = append(out, g)
	}
	if f.Err && len(f.Faults) == 0 {
		g := clone()
		g.Err, g.ErrAt = false, 0
		out = append(out, g)
	}
	if f.ErrAt != 0 {
		g := clone()
		g.ErrAt = 0
		out = append(out, g)
	}
	if f.Dur != 0 {
		g := clone()
		g.Dur = 0
		out = append(out, g)
	}
	return out
}

func optsVariants(o *Opts) []*Opts {
	if o == nil {
		return nil
	}
	var out []*Opts
	mk := func(mod func(*Opts)) {
		c := *o
		c.As = append([]string(nil), o.As...)
		c.AsRaw = append([]string(nil), o.AsRaw...)
		mod(&c)
		if c.Name == "" && c.Group == "" && len(c.As) == 0 && len(c.AsRaw) == 0 && !c.Export && !c.Info && !c.CB && c.LocPC == "" {
			out = append(out, nil)
		} else {
			out = append(out, &c)
		}
	}
	if o.Info {
		mk(func(c *Opts) { c.Info = false })
	}
	if o.CB {
		mk(func(c *Opts) { c.CB = false })
	}
	if o.Export {
		mk(func(c *Opts) { c.Export = false })
	}
	if o.LocPC != "" {
		mk(func(c *Opts) { c.LocPC = "" })
	}
	if len(o.As) > 0 {
		mk(func(c *Opts) { c.As = c.As[:len(c.As)-1] })
	}
	return out
}

// MinimizeCase greedily simplifies c while stillFails(c) holds. budget bounds
// the number of check evaluations.
func MinimizeCase(c *Case, stillFails func(*Case) bool, budget int) *Case {
	cur := c.Clone()
	try := func(cand *Case) bool {
		if cand == nil || budget <= 0 {
			return false
		}
		budget--
		ok := false
		func() {
			defer func() {
				if recover() != nil {
					ok = false
				}
			}()
			ok = stillFails(cand)
		}()
		return ok
	}
	for changed := true; changed && budget > 0; {
		changed = false
		// 1. remove operations (last to first)
		for i := len(cur.Ops) - 1; i >= 0; i-- {
			if cand := removeOp(cur, i); try(cand) {
				cur = cand
				changed = true
			}
		}
		// 2. simplify functions and options
		for i := 0; i < len(cur.Ops); i++ {
			if cur.Ops[i].F != nil && cur.Ops[i].F.Bank == 0 {
				for again := true; again && budget > 0; {
					again = false
					for _, g := range fnVariants(cur.Ops[i].F) {
						cand := cur.Clone()
						cand.Ops[i].F = g
						if cand.Variant != nil && cand.Variant.Alt != nil {
							delete(cand.Variant.Alt, i)
						}
						if try(cand) {
							cur = cand
							changed, again = true, true
							break
						}
					}
				}
			}
			for _, o := range optsVariants(cur.Ops[i].O) {
				cand := cur.Clone()
				cand.Ops[i].O = o
				if try(cand) {
					cur = cand
					changed = true
					break
				}
			}
		}
		// 3. configuration
		for _, mod := range []func(*Case){
			func(x *Case) { x.Cfg.Defer = false },
			func(x *Case) { x.Cfg.Recover = false },
		} {
			cand := cur.Clone()
			before := cand.Cfg
			mod(cand)
			if cand.Cfg != before && try(cand) {
				cur = cand
				changed = true
			}
		}
	}
	return cur
}

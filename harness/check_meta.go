package harness

import (
	"fmt"
	"runtime"
	"sort"
	"strings"

	"pgregory.net/rapid"
)

// ---------------------------------------------------------------------------
// Metamorphic checks: C15 (equivalent encodings), C16 (registration order,
// scope creation time, verification timing).
// ---------------------------------------------------------------------------

// canonTrace renders, per op, the class, the executed multiset and for every
// execution the multiset of (leaf key → producing function / produced key)
// independent of how parameters and results are encoded.
type canonOp struct {
	Class    string
	Executed string
	Wiring   string
}

func fnsOfCase(c *Case) map[int]*MFn {
	out := map[int]*MFn{}
	for _, op := range c.Ops {
		if op.F == nil {
			continue
		}
		kind := KCtor
		switch op.K {
		case OpDecorate:
			kind = KDeco
		case OpInvoke:
			kind = KInvoke
		}
		out[op.F.ID] = NewMFn(op.F, op.O, kind, op.S)
	}
	return out
}

func canonTok(tr *Trace, fns map[int]*MFn, tok int64) string {
	if tok == 0 {
		return "zero"
	}
	d, ok := tr.RT.Desc(tok)
	if !ok {
		return "bad"
	}
	keys := "?"
	if f := fns[d.Fn]; f != nil {
		for _, s := range f.Slots {
			if s.Path == d.Slot {
				var ks []string
				for _, k := range s.Keys {
					ks = append(ks, k.String())
				}
				sort.Strings(ks)
				keys = strings.Join(ks, "+")
			}
		}
	}
	return fmt.Sprintf("f%d#%d<%s>", d.Fn, d.Exec, keys)
}

func canonProv(tr *Trace, fns map[int]*MFn, p Prov) string {
	switch p.Kind {
	case "single":
		return canonTok(tr, fns, p.Tok)
	case "group":
		var es []string
		for _, t := range p.Elems {
			es = append(es, canonTok(tr, fns, t))
		}
		sort.Strings(es)
		return "[" + strings.Join(es, ",") + "]"
	}
	return p.Kind
}

func canonOpOf(tr *Trace, fns map[int]*MFn, i int) canonOp {
	co := canonOp{Class: tr.Ops[i].Class, Executed: execMultiset(tr, i)}
	var out []string
	for _, e := range tr.Events(i) {
		if e.Kind != EvEnter {
			continue
		}
		f := fns[e.Fn]
		if f == nil {
			continue
		}
		var ls []string
		for _, l := range f.Leaves {
			p, ok := navigate(e.Args, l.Path)
			if !ok {
				continue
			}
			flag := ""
			if l.Opt {
				flag = "?"
			}
			ls = append(ls, fmt.Sprintf("%v%s=%s", l.Key, flag, canonProv(tr, fns, p)))
		}
		sort.Strings(ls)
		out = append(out, fmt.Sprintf("f%d#%d(%s)", e.Fn, e.Exec, strings.Join(ls, "; ")))
	}
	sort.Strings(out)
	co.Wiring = strings.Join(out, " | ")
	return co
}

// applyAlt builds the re-encoded twin of a case.
func applyAlt(c *Case) (*Case, int, bool) {
	b := c.Clone()
	n := 0
	deep := false
	if c.Variant == nil {
		return b, 0, false
	}
	for i, a := range c.Variant.Alt {
		if i < 0 || i >= len(b.Ops) || b.Ops[i].F == nil || a == nil || a.F == nil || b.Ops[i].F.ID != a.F.ID {
			continue
		}
		// keep non-encoding options (Export, Info, callback) of the original
		orig := b.Ops[i].O
		b.Ops[i].F = a.F
		if b.Ops[i].K == OpProvide {
			no := &Opts{}
			if orig != nil {
				*no = *orig
			}
			no.Name, no.Group = "", ""
			if a.O != nil {
				no.Name, no.Group = a.O.Name, a.O.Group
			}
			if no.Name == "" && no.Group == "" && len(no.As) == 0 && !no.Export && !no.Info && !no.CB && no.LocPC == "" {
				no = nil
			}
			if (orig != nil && (orig.Name != "" || orig.Group != "")) != (no != nil && (no.Name != "" || no.Group != "")) {
				deep = true // option <-> tag move
			}
			b.Ops[i].O = no
		}
		n++
		if nestingDepth(a.F) >= 2 {
			deep = true
		}
	}
	b.Variant = nil
	return b, n, deep
}

// userPanic: the value is one that a generated function body panics with.
func userPanic(v interface{}) bool {
	switch x := v.(type) {
	case *PanicVal, *PanicErr, *CBPanicVal, PanicSlice:
		return true
	case runtime.Error:
		return strings.Contains(x.Error(), "nil map") // Fn.PK == 7
	case string:
		return strings.HasPrefix(x, "panic of f") // Fn.PK == 4
	}
	return false
}

func nestingDepth(f *Fn) int {
	max := 0
	var wp func(p Param, d int)
	wp = func(p Param, d int) {
		if p.isObj() {
			if d+1 > max {
				max = d + 1
			}
			for _, q := range p.Obj {
				wp(q, d+1)
			}
		}
	}
	for _, p := range f.P {
		wp(p, 0)
	}
	var wr func(r Result, d int)
	wr = func(r Result, d int) {
		if r.isObj() {
			if d+1 > max {
				max = d + 1
			}
			for _, q := range r.Obj {
				wr(q, d+1)
			}
		}
	}
	for _, r := range f.R {
		wr(r, 0)
	}
	return max
}

func init() {
	register(&PropDef{
		ID:   "C15",
		Rule: "a fault-free base history plus, per function, an equivalent re-encoding (positional parameters folded into dig.In structs with random grouping and nesting, results folded into dig.Out structs with random nesting, a variadic parameter appended, Name/Group option moved to result-object tags and back); oracle (metamorphic): both encodings on fresh containers give the same verdict class per op, the same executed multiset per op and the same key-wise wiring at every consumer; non-trivial = >=2 functions re-encoded, one of them with nesting >=2 or an option<->tag move, and a successful Invoke executing >=2 functions; distinct by FNV-64 of the canonical IR (including the alternative encodings)",
		Gen: func(t *rapid.T, thorough bool) *Case {
			k := DefaultKnobs()
			k.PReencode = 70
			k.PSoft = 0 // soft group content depends on field placement by design (C11)
			k.PNamed, k.PGroupRes = 30, 25
			k.PFresh = 85
			k.PDefer, k.PCycleKeep = 25, 15   // cyclic graphs accepted under Defer: both encodings must meet the same verdicts
			k.PNoResult = 3                   // no results at all == only empty result objects
			k.PDeepWrap, k.PEmptyTag = 10, 12 // objects several levels down; explicit empty tags
			k.POpt, k.PAvail = 25, 88         // optional edges above missing dependencies, in every encoding
			if rapid.IntRange(0, 99).Draw(t, "wrapmode") < 35 {
				// order-preserving re-encodings on histories with failing
				// functions: the same functions must run in both forms
				k.WrapAlt = true
				k.NoFaults, k.PFault, k.PErr, k.PPanic, k.PRecover = false, 18, 40, 30, 60
				c := GenCase(t, scale(k, thorough))
				if c.Variant == nil {
					c.Variant = &Variant{}
				}
				c.Variant.Ordered = true
				return c
			}
			return GenCase(t, scale(k, thorough))
		},
		Check: func(c *Case, st *Stats) *Failure {
			b, n, deep := applyAlt(c)
			ta := Run(c, RunOpts{})
			tb := Run(b, RunOpts{})
			v := Validate(c, ta, VOpts{})
			l := CaseLabels(c, v)
			l["reencoded>=2"] = n >= 2
			if c.Variant != nil && c.Variant.Ordered {
				l["order-preserving-reencoding-with-faults"] = true
			}
			l["deep-or-optmove"] = deep
			st.Record(c, n >= 2 && deep && l["invoke-ran>=2"], l)
			if v.Tainted {
				st.Count("excluded_known", 1)
				return nil
			}
			fa, fb := fnsOfCase(c), fnsOfCase(b)
			failedBefore := false // which functions ran before a failure is unspecified
			for i, op := range c.Ops {
				if ta.Ops[i].Class == ClRisky || tb.Ops[i].Class == ClRisky {
					return nil
				}
				if (ta.Ops[i].Panicked && !userPanic(ta.Ops[i].PanicVal)) || (tb.Ops[i].Panicked && !userPanic(tb.Ops[i].PanicVal)) {
					return &Failure{CEscapedPanic, fmt.Sprintf("op %d panicked: %v / %v", i, ta.Ops[i].PanicVal, tb.Ops[i].PanicVal)}
				}
				ca, cb := canonOpOf(ta, fa, i), canonOpOf(tb, fb, i)
				if ca.Class != cb.Class {
					return &Failure{"encoding-verdict", fmt.Sprintf("op %d: %s gives %s (%v) but its equivalent encoding %s gives %s (%v)", i, op.Short(), ca.Class, ta.Ops[i].Err, b.Ops[i].Short(), cb.Class, tb.Ops[i].Err)}
				}
				if op.K == OpInvoke && ca.Class != ClOK && !(c.Variant != nil && c.Variant.Ordered) {
					failedBefore = true
				}
				if !failedBefore {
					if ca.Executed != cb.Executed {
						return &Failure{"encoding-executed", fmt.Sprintf("op %d (%s): executed {%s} vs {%s} under the equivalent encoding", i, op.Short(), ca.Executed, cb.Executed)}
					}
					if ca.Wiring != cb.Wiring {
						return &Failure{"encoding-wiring", fmt.Sprintf("op %d (%s): wiring\n   %s\nvs %s", i, op.Short(), ca.Wiring, cb.Wiring)}
					}
				}
			}
			if failedBefore {
				// a failed Invoke built a prefix of its arguments that depends
				// on the order of the fields: a function that ran in one
				// encoding only may run later, after further registrations
				// (a decorator, a nearer provider), and see other values
				st.Count("wiring_comparison_skipped_after_failed_invoke", 1)
				return nil
			}
			wa, wb := wiringByFn(ta, fa), wiringByFn(tb, fb)
			var ids []int
			for id := range wa {
				ids = append(ids, id)
			}
			sort.Ints(ids)
			for _, id := range ids {
				if w, ok := wb[id]; ok && w != wa[id] {
					return &Failure{"encoding-wiring", fmt.Sprintf("f%d received different values under the equivalent encoding:\n   %s\nvs %s", id, wa[id], w)}
				}
			}
			return nil
		},
	})

	register(&PropDef{
		ID:   "C16",
		Rule: "a fault-free history cut into blocks at Invokes; variant = a random permutation inside every block whose registrations were all accepted, with scope creations moved anywhere between their parent's creation and their first use, and DeferAcyclicVerification toggled; oracle (metamorphic): every permuted registration is still accepted, every Invoke has the same verdict class and every function that ran in both histories received the same wiring; the Defer comparison applies when neither run reports a cycle; non-trivial = the permutation moves a consumer before its provider or a scope creation across >=1 registration of an ancestor, and an Invoke succeeded; distinct by FNV-64 of the canonical IR (including the permutation)",
		Gen: func(t *rapid.T, thorough bool) *Case {
			k := DefaultKnobs()
			k.WScope = 5
			k.PFresh = 88
			k.WCycleCloser = 3
			k.PGroupParam, k.PGroupRes = 30, 30
			k.WDecorate, k.PDecoGroup = 5, 45 // group decorators registered before / after the constructors that consume the group
			faulty := rapid.IntRange(0, 99).Draw(t, "faultmode") < 20
			if faulty {
				// failing functions: only the Defer toggle is compared (the
				// effects of failures depend on the order of execution)
				k.NoFaults, k.PFault, k.PPanic, k.PErr, k.PRecover = false, 12, 60, 40, 60
			}
			c := GenCase(t, scale(k, thorough))
			if faulty {
				if c.Variant == nil {
					c.Variant = &Variant{}
				}
				c.Variant.NoPerm, c.Variant.Defer = true, true
				return c
			}
			// draw a permutation key per op; blocks are sorted by it
			perm := make([]int, len(c.Ops))
			for i := range perm {
				perm[i] = rapid.IntRange(0, 1000).Draw(t, "permkey")
			}
			if c.Variant == nil {
				c.Variant = &Variant{}
			}
			c.Variant.Perm = perm
			c.Variant.Defer = rapid.Bool().Draw(t, "toggledefer")
			c.Variant.Hoist = rapid.Bool().Draw(t, "hoistscopes")
			return c
		},
		Check: checkC16,
	})
}

// permutedOrder computes a legal execution order from permutation keys:
// ops are reordered inside blocks delimited by Invoke/Visualize/String ops
// (and only inside blocks where `permutable` holds); scope references stay
// legal (a scope is created after its parent and before its first use).
func permutedOrder(c *Case, keys []int, permutable func(block []int) bool, hoist bool) []int {
	var order []int
	var block []int
	seq := make([]int, len(c.Ops))
	for i := range seq {
		seq[i] = i
	}
	if hoist {
		// create every scope right after its parent (root's children first
		// of all), keeping the relative order of everything else
		creator := map[int]int{} // scope index -> op index
		nn := 1
		for i, op := range c.Ops {
			if op.K == OpScope {
				creator[nn] = i
				nn++
			}
		}
		var rest []int
		for i, op := range c.Ops {
			if op.K != OpScope {
				rest = append(rest, i)
			}
		}
		var scopesFirst []int
		var place func(parent int)
		place = func(parent int) {
			for sidx := 1; sidx < nn; sidx++ {
				if c.Ops[creator[sidx]].S == parent {
					scopesFirst = append(scopesFirst, creator[sidx])
					place(sidx)
				}
			}
		}
		place(0)
		seq = append(scopesFirst, rest...)
	}
	created := map[int]bool{0: true}
	scopeIdx := map[int]int{}
	n := 1
	for i, op := range c.Ops {
		if op.K == OpScope {
			scopeIdx[i] = n
			n++
		}
	}
	flush := func() {
		if len(block) == 0 {
			return
		}
		idx := append([]int(nil), block...)
		if permutable(block) {
			sort.SliceStable(idx, func(a, b int) bool {
				ka, kb := 0, 0
				if idx[a] < len(keys) {
					ka = keys[idx[a]]
				}
				if idx[b] < len(keys) {
					kb = keys[idx[b]]
				}
				return ka < kb
			})
		}
		// emit respecting scope creation
		pending := idx
		for len(pending) > 0 {
			progressed := false
			var rest []int
			for _, i := range pending {
				op := c.Ops[i]
				if created[op.S] || op.S >= n {
					order = append(order, i)
					if op.K == OpScope {
						created[scopeIdx[i]] = true
					}
					progressed = true
				} else {
					rest = append(rest, i)
				}
			}
			pending = rest
			if !progressed {
				order = append(order, pending...)
				break
			}
		}
		block = nil
	}
	for _, i := range seq {
		switch c.Ops[i].K {
		case OpInvoke, OpVisualize, OpString:
			flush()
			order = append(order, i)
		default:
			block = append(block, i)
		}
	}
	flush()
	return order
}

func checkC16(c *Case, st *Stats) *Failure {
	ta := Run(c, RunOpts{})
	v := Validate(c, ta, VOpts{})
	l := CaseLabels(c, v)
	var keys []int
	toggle := false
	if c.Variant != nil {
		keys = c.Variant.Perm
		toggle = c.Variant.Defer
	}
	allAccepted := func(block []int) bool {
		for _, i := range block {
			if c.Ops[i].K != OpScope && ta.Ops[i].Class != ClOK {
				return false
			}
		}
		return true
	}
	order := permutedOrder(c, keys, allAccepted, c.Variant != nil && c.Variant.Hoist)
	if c.Variant != nil && c.Variant.Hoist {
		l["scopes-hoisted"] = true
	}
	// classify the permutation
	pos := make([]int, len(c.Ops))
	for p, i := range order {
		pos[i] = p
	}
	moved := false
	fns := fnsOfCase(c)
	for i, op := range c.Ops {
		if op.F == nil || op.K == OpInvoke {
			continue
		}
		fi := fns[op.F.ID]
		for j, oq := range c.Ops {
			if oq.F == nil || oq.K != OpProvide || i == j {
				continue
			}
			fj := fns[oq.F.ID]
			// i consumes a key of j
			consumes := false
			for _, lf := range fi.Leaves {
				if fj.SlotFor(lf.Key) >= 0 {
					consumes = true
				}
			}
			if consumes && j < i && pos[i] < pos[j] {
				moved = true // consumer now registered before its provider
			}
		}
	}
	for i, op := range c.Ops {
		if op.K != OpScope {
			continue
		}
		for j, oq := range c.Ops {
			if oq.K == OpProvide || oq.K == OpDecorate {
				if (j < i) != (pos[j] < pos[i]) {
					l["scope-moved-across-registration"] = true
					moved = true
				}
			}
		}
	}
	l["consumer-before-provider-or-scope-moved"] = moved
	st.Record(c, moved && l["invoke-ok"], l)
	if v.Tainted || l["zone-deco-no-provider"] {
		st.Count("excluded_zone_cases", 1)
		return nil
	}
	if c.Variant == nil || !c.Variant.NoPerm {
		tb := Run(c, RunOpts{Order: order})
		if f := compareOrderRuns(c, ta, tb, fns, "permuted order", allAccepted, order); f != nil {
			return f
		}
	} else {
		l["defer-toggle-with-failing-functions"] = true
	}
	if toggle {
		nd := !c.Cfg.Defer
		tc := Run(c, RunOpts{ForceDefer: &nd})
		cycle := false
		for i := range c.Ops {
			if ta.Ops[i].Class == ClCycle || tc.Ops[i].Class == ClCycle || ta.Ops[i].Class == ClRisky || tc.Ops[i].Class == ClRisky {
				cycle = true
			}
		}
		if cycle {
			st.Count("defer_toggle_skipped_cycle_reported", 1)
			return nil
		}
		st.Count("defer_toggle_compared", 1)
		for i, op := range c.Ops {
			if ta.Ops[i].Class != tc.Ops[i].Class {
				return &Failure{"defer-verdict", fmt.Sprintf("op %d (%s): class %s (%v) with Defer=%v but %s (%v) with Defer=%v, and no cycle is reported in either run", i, op.Short(), ta.Ops[i].Class, ta.Ops[i].Err, c.Cfg.Defer, tc.Ops[i].Class, tc.Ops[i].Err, nd)}
			}
			ca, cb := canonOpOf(ta, fns, i), canonOpOf(tc, fns, i)
			if ca.Wiring != cb.Wiring || ca.Executed != cb.Executed {
				return &Failure{"defer-wiring", fmt.Sprintf("op %d (%s): Defer toggle changes wiring/executed:\n   %s {%s}\nvs %s {%s}", i, op.Short(), ca.Wiring, ca.Executed, cb.Wiring, cb.Executed)}
			}
		}
	}
	return nil
}

func compareOrderRuns(c *Case, ta, tb *Trace, fns map[int]*MFn, what string, permutable func([]int) bool, order []int) *Failure {
	for i, op := range c.Ops {
		a, b := ta.Ops[i], tb.Ops[i]
		if a.Class == ClRisky || b.Class == ClRisky {
			return nil // from here on the histories are not comparable
		}
		if a.Panicked || b.Panicked {
			return &Failure{CEscapedPanic, fmt.Sprintf("op %d panicked: %v / %v", i, a.PanicVal, b.PanicVal)}
		}
		switch op.K {
		case OpProvide, OpDecorate:
			if a.Class == ClOK && b.Class != ClOK {
				return &Failure{"order-verdict", fmt.Sprintf("op %d (%s) is accepted in the original order but rejected (%s: %v) in the %s %v", i, op.Short(), b.Class, b.Err, what, order)}
			}
		case OpInvoke:
			if a.Class != b.Class {
				return &Failure{"order-verdict", fmt.Sprintf("op %d (%s): class %s (%v) in the original order, %s (%v) in the %s %v", i, op.Short(), a.Class, a.Err, b.Class, b.Err, what, order)}
			}
		}
	}
	// wiring: every function that ran successfully in both histories
	// received the same values (by key); invoked functions of successful
	// Invokes likewise.
	wa, wb := wiringByFn(ta, fns), wiringByFn(tb, fns)
	var ids []int
	for id := range wa {
		ids = append(ids, id)
	}
	sort.Ints(ids)
	for _, id := range ids {
		if w, ok := wb[id]; ok && w != wa[id] {
			return &Failure{"order-wiring", fmt.Sprintf("f%d received different values in the %s %v:\n   %s\nvs %s", id, what, order, wa[id], w)}
		}
	}
	return nil
}

// wiringByFn: for each function, the key-wise provenance of its successful
// execution.
func wiringByFn(tr *Trace, fns map[int]*MFn) map[int]string {
	okExec := map[[2]int]bool{}
	for _, e := range tr.RT.Log {
		if e.Kind == EvExit && e.Outcome == FaultOK {
			okExec[[2]int{e.Fn, e.Exec}] = true
		}
	}
	out := map[int]string{}
	for _, e := range tr.RT.Log {
		if e.Kind != EvEnter || !okExec[[2]int{e.Fn, e.Exec}] {
			continue
		}
		f := fns[e.Fn]
		if f == nil {
			continue
		}
		var ls []string
		for _, l := range f.Leaves {
			if l.IsGroup && l.Soft {
				continue // soft content legitimately depends on what ran before
			}
			p, ok := navigate(e.Args, l.Path)
			if !ok {
				continue
			}
			// producing function and key only (execution numbers are equal
			// for functions that run once)
			ls = append(ls, fmt.Sprintf("%v=%s", l.Key, canonProv(tr, fns, p)))
		}
		sort.Strings(ls)
		out[e.Fn] = strings.Join(ls, "; ")
	}
	return out
}

package harness

import (
	"os"
	"testing"

	"pgregory.net/rapid"
)

// Native coverage-guided fuzzing (thorough tier of C14 and C05 only): the
// fuzzer mutates the bit stream that rapid's generators consume, so every
// input is decoded into a structured history IR and judged by the same
// oracle as the rapid search. A crasher is written as an IR replay file.
func fuzzProp(f *testing.F, id string) {
	p := Props[id]
	st := NewStats(id)
	f.Fuzz(rapid.MakeFuzz(func(t *rapid.T) {
		c := p.Gen(t, false)
		c.Prop = id
		if fl := p.Check(c, st); fl != nil {
			if path := os.Getenv("VERIF_FAILOUT"); path != "" {
				c.Note = fl.Error()
				os.WriteFile(path, c.Pretty(), 0o644)
			}
			t.Fatalf("%s violated: %s\ncase: %s", id, fl.Error(), c.Short())
		}
	}))
}

func FuzzC14(f *testing.F) { fuzzProp(f, "C14") }
func FuzzC05(f *testing.F) { fuzzProp(f, "C05") }

package harness

import (
	"os"
	"testing"

	"pgregory.net/rapid"
)

// Native coverage-guided fuzzing (thorough tier only): the
// fuzzer mutates the bit stream that rapid's generators consume, so every
// input is decoded into a structured history IR and judged by the same
// oracle as the rapid search. A crasher is written as an IR replay file.
func fuzzProp(f *testing.F, id string) {
	p := Props[id]
	st := NewStats(id)
	// starting corpus: pseudo-random bit streams of several lengths (an
	// all-zero stream decodes to the smallest history only)
	x := uint64(0x9E3779B97F4A7C15)
	for _, n := range []int{256, 1024, 2048, 4096, 4096, 8192, 8192, 16384} {
		b := make([]byte, n)
		for i := range b {
			x ^= x << 13
			x ^= x >> 7
			x ^= x << 17
			b[i] = byte(x >> 24)
		}
		f.Add(b)
	}
	f.Fuzz(rapid.MakeFuzz(func(t *rapid.T) {
		c := p.Gen(t, false)
		c.Prop = id
		if fl := p.Check(c, st); fl != nil {
			if path := os.Getenv("VERIF_FAILOUT"); path != "" {
				c.Note = fl.Error()
				os.WriteFile(path, c.Pretty(), 0o644)
			}
			t.Fatalf("%s violated: %s\ncase: %s", id, fl.Error(), c.Short())
		}
	}))
}

func FuzzC01(f *testing.F) { fuzzProp(f, "C01") }
func FuzzC02(f *testing.F) { fuzzProp(f, "C02") }
func FuzzC03(f *testing.F) { fuzzProp(f, "C03") }
func FuzzC04(f *testing.F) { fuzzProp(f, "C04") }
func FuzzC05(f *testing.F) { fuzzProp(f, "C05") }
func FuzzC06(f *testing.F) { fuzzProp(f, "C06") }
func FuzzC07(f *testing.F) { fuzzProp(f, "C07") }
func FuzzC08(f *testing.F) { fuzzProp(f, "C08") }
func FuzzC09(f *testing.F) { fuzzProp(f, "C09") }
func FuzzC10(f *testing.F) { fuzzProp(f, "C10") }
func FuzzC11(f *testing.F) { fuzzProp(f, "C11") }
func FuzzC12(f *testing.F) { fuzzProp(f, "C12") }
func FuzzC13(f *testing.F) { fuzzProp(f, "C13") }
func FuzzC14(f *testing.F) { fuzzProp(f, "C14") }
func FuzzC15(f *testing.F) { fuzzProp(f, "C15") }
func FuzzC16(f *testing.F) { fuzzProp(f, "C16") }
func FuzzC17(f *testing.F) { fuzzProp(f, "C17") }
func FuzzC18(f *testing.F) { fuzzProp(f, "C18") }
func FuzzC19(f *testing.F) { fuzzProp(f, "C19") }
func FuzzC20(f *testing.F) { fuzzProp(f, "C20") }

package harness

import "reflect"

// Named slice types (two per element type): a value-group parameter, a
// flatten result or a decorated group may be declared with any slice type
// whose element type is the group's type; the name of the slice type is not
// part of the group's identity.
type NA_T0 []*T0
type NB_T0 []*T0
type NA_T1 []*T1
type NB_T1 []*T1
type NA_T2 []*T2
type NB_T2 []*T2
type NA_T3 []*T3
type NB_T3 []*T3
type NA_T4 []*T4
type NB_T4 []*T4
type NA_T5 []*T5
type NB_T5 []*T5
type NA_S0 []S0
type NB_S0 []S0
type NA_S1 []S1
type NB_S1 []S1
type NA_I0 []I0
type NB_I0 []I0
type NA_I1 []I1
type NB_I1 []I1
type NA_I2 []I2
type NB_I2 []I2
type NA_I01 []I01
type NB_I01 []I01

var namedSlices = map[string]reflect.Type{
	"A/T0":  reflect.TypeOf(NA_T0(nil)),
	"B/T0":  reflect.TypeOf(NB_T0(nil)),
	"A/T1":  reflect.TypeOf(NA_T1(nil)),
	"B/T1":  reflect.TypeOf(NB_T1(nil)),
	"A/T2":  reflect.TypeOf(NA_T2(nil)),
	"B/T2":  reflect.TypeOf(NB_T2(nil)),
	"A/T3":  reflect.TypeOf(NA_T3(nil)),
	"B/T3":  reflect.TypeOf(NB_T3(nil)),
	"A/T4":  reflect.TypeOf(NA_T4(nil)),
	"B/T4":  reflect.TypeOf(NB_T4(nil)),
	"A/T5":  reflect.TypeOf(NA_T5(nil)),
	"B/T5":  reflect.TypeOf(NB_T5(nil)),
	"A/S0":  reflect.TypeOf(NA_S0(nil)),
	"B/S0":  reflect.TypeOf(NB_S0(nil)),
	"A/S1":  reflect.TypeOf(NA_S1(nil)),
	"B/S1":  reflect.TypeOf(NB_S1(nil)),
	"A/I0":  reflect.TypeOf(NA_I0(nil)),
	"B/I0":  reflect.TypeOf(NB_I0(nil)),
	"A/I1":  reflect.TypeOf(NA_I1(nil)),
	"B/I1":  reflect.TypeOf(NB_I1(nil)),
	"A/I2":  reflect.TypeOf(NA_I2(nil)),
	"B/I2":  reflect.TypeOf(NB_I2(nil)),
	"A/I01": reflect.TypeOf(NA_I01(nil)),
	"B/I01": reflect.TypeOf(NB_I01(nil)),
}

// namedSliceType returns the declared slice type variant ("A" or "B") for
// element type elem, or nil.
func namedSliceType(variant, elem string) reflect.Type { return namedSlices[variant+"/"+elem] }

package harness

import (
	"os"
	"path/filepath"
	"testing"
)

// The parser must accept every golden DOT file shipped with dig and reject a
// few malformed documents.
func TestDotParserOnGoldenFiles(t *testing.T) {
	files, _ := filepath.Glob("/repo/testdata/*.dot")
	if len(files) == 0 {
		t.Skip("no golden files")
	}
	for _, f := range files {
		b, _ := os.ReadFile(f)
		if _, err := ParseDOT(string(b)); err != nil {
			t.Errorf("%s: %v", f, err)
		}
	}
	bad := []string{
		`digraph { a -> }`,
		`digraph { "a" [label=<<-chan int>]; }`,
		`digraph { "a" [label=<x<BR />Name: <b>>]; }`,
		`digraph { "a" [label=<a & b>]; }`,
		`digraph { a [label="x] }`,
		`digraph { subgraph cluster_0 { a; }`,
		`digraph { a [label=<<FONT POINT-SIZE=10>x</FONT>>]; }`,
	}
	for _, s := range bad {
		if _, err := ParseDOT(s); err == nil {
			t.Errorf("accepted malformed DOT: %s", s)
		}
	}
	good := []string{
		`digraph { "a" [label=<&lt;-chan int<BR /><FONT POINT-SIZE="10">Name: &#34;x&#34;</FONT>>]; }`,
		`strict graph g { a -- b [w=1.5, x="y"]; /* c */ // d
		}`,
	}
	for _, s := range good {
		if _, err := ParseDOT(s); err != nil {
			t.Errorf("rejected valid DOT %s: %v", s, err)
		}
	}
}

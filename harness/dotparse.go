package harness

import (
	"fmt"
	"strings"
)

// ---------------------------------------------------------------------------
// A DOT parser written for the harness (C19): full lexical grammar (plain,
// numeral, quoted and HTML IDs, comments), statements (node, edge, attr,
// assignment, subgraph) and validation of HTML-like labels.
// ---------------------------------------------------------------------------

type DotVal struct {
	S    string
	HTML bool
}

type DotStmt struct {
	Kind   string // node | edge | attr | assign | subgraph
	Node   string
	Path   []string // edge: node ids along the edge statement
	Target string   // attr statement target (graph|node|edge); assign key
	Val    DotVal   // assign value
	Attrs  map[string]DotVal
	Sub    *DotSub
}

type DotSub struct {
	Name  string
	Stmts []DotStmt
}

type DotGraph struct {
	Strict   bool
	Directed bool
	Name     string
	Stmts    []DotStmt
}

type dotTok struct {
	kind string // id | qid | html | punct | eof
	s    string
	pos  int
}

type dotLexer struct {
	src string
	pos int
}

func isIDStart(c byte) bool {
	return c == '_' || (c >= 'a' && c <= 'z') || (c >= 'A' && c <= 'Z') || c >= 0x80
}
func isIDChar(c byte) bool { return isIDStart(c) || (c >= '0' && c <= '9') }

func (lx *dotLexer) next() (dotTok, error) {
	for lx.pos < len(lx.src) {
		c := lx.src[lx.pos]
		switch {
		case c == ' ' || c == '\t' || c == '\n' || c == '\r':
			lx.pos++
		case c == '/' && lx.pos+1 < len(lx.src) && lx.src[lx.pos+1] == '/':
			for lx.pos < len(lx.src) && lx.src[lx.pos] != '\n' {
				lx.pos++
			}
		case c == '/' && lx.pos+1 < len(lx.src) && lx.src[lx.pos+1] == '*':
			end := strings.Index(lx.src[lx.pos+2:], "*/")
			if end < 0 {
				return dotTok{}, fmt.Errorf("unterminated comment at %d", lx.pos)
			}
			lx.pos += end + 4
		case c == '#' && (lx.pos == 0 || lx.src[lx.pos-1] == '\n'):
			for lx.pos < len(lx.src) && lx.src[lx.pos] != '\n' {
				lx.pos++
			}
		default:
			goto tok
		}
	}
	return dotTok{kind: "eof", pos: lx.pos}, nil
tok:
	start := lx.pos
	c := lx.src[lx.pos]
	switch {
	case isIDStart(c):
		for lx.pos < len(lx.src) && isIDChar(lx.src[lx.pos]) {
			lx.pos++
		}
		return dotTok{"id", lx.src[start:lx.pos], start}, nil
	case (c >= '0' && c <= '9') || c == '.' || (c == '-' && lx.pos+1 < len(lx.src) && (lx.src[lx.pos+1] == '.' || (lx.src[lx.pos+1] >= '0' && lx.src[lx.pos+1] <= '9'))):
		lx.pos++
		for lx.pos < len(lx.src) && ((lx.src[lx.pos] >= '0' && lx.src[lx.pos] <= '9') || lx.src[lx.pos] == '.') {
			lx.pos++
		}
		return dotTok{"id", lx.src[start:lx.pos], start}, nil
	case c == '"':
		lx.pos++
		var sb strings.Builder
		for {
			if lx.pos >= len(lx.src) {
				return dotTok{}, fmt.Errorf("unterminated quoted string starting at %d", start)
			}
			ch := lx.src[lx.pos]
			if ch == '\\' && lx.pos+1 < len(lx.src) {
				if lx.src[lx.pos+1] == '"' {
					sb.WriteByte('"')
					lx.pos += 2
					continue
				}
				sb.WriteByte(ch)
				sb.WriteByte(lx.src[lx.pos+1])
				lx.pos += 2
				continue
			}
			if ch == '"' {
				lx.pos++
				break
			}
			sb.WriteByte(ch)
			lx.pos++
		}
		return dotTok{"qid", sb.String(), start}, nil
	case c == '<':
		depth := 0
		for lx.pos < len(lx.src) {
			switch lx.src[lx.pos] {
			case '<':
				depth++
			case '>':
				depth--
			}
			lx.pos++
			if depth == 0 {
				return dotTok{"html", lx.src[start+1 : lx.pos-1], start}, nil
			}
		}
		return dotTok{}, fmt.Errorf("unbalanced HTML string starting at %d", start)
	case c == '-':
		if lx.pos+1 < len(lx.src) && (lx.src[lx.pos+1] == '>' || lx.src[lx.pos+1] == '-') {
			lx.pos += 2
			return dotTok{"punct", lx.src[start:lx.pos], start}, nil
		}
		return dotTok{}, fmt.Errorf("unexpected '-' at %d", start)
	case strings.ContainsRune("{}[];,=:+", rune(c)):
		lx.pos++
		return dotTok{"punct", string(c), start}, nil
	}
	return dotTok{}, fmt.Errorf("unexpected character %q at %d", c, start)
}

type dotParser struct {
	toks []dotTok
	i    int
}

func (p *dotParser) peek() dotTok { return p.toks[p.i] }
func (p *dotParser) take() dotTok { t := p.toks[p.i]; p.i++; return t }
func (p *dotParser) isPunct(s string) bool {
	t := p.peek()
	return t.kind == "punct" && t.s == s
}
func (p *dotParser) isKeyword(s string) bool {
	t := p.peek()
	return t.kind == "id" && strings.EqualFold(t.s, s)
}
func (p *dotParser) expectPunct(s string) error {
	if !p.isPunct(s) {
		return fmt.Errorf("expected %q at %d, got %q", s, p.peek().pos, p.peek().s)
	}
	p.i++
	return nil
}
func (p *dotParser) isID() bool {
	k := p.peek().kind
	return k == "id" || k == "qid" || k == "html"
}

func (p *dotParser) id() (DotVal, error) {
	if !p.isID() {
		return DotVal{}, fmt.Errorf("expected an ID at %d, got %q", p.peek().pos, p.peek().s)
	}
	t := p.take()
	if t.kind == "html" {
		if err := validateHTMLLabel(t.s); err != nil {
			return DotVal{}, fmt.Errorf("invalid HTML-like label <%s>: %v", t.s, err)
		}
		return DotVal{S: t.s, HTML: true}, nil
	}
	return DotVal{S: t.s}, nil
}

// ParseDOT parses a complete DOT document.
func ParseDOT(src string) (*DotGraph, error) {
	lx := &dotLexer{src: src}
	var toks []dotTok
	for {
		t, err := lx.next()
		if err != nil {
			return nil, err
		}
		toks = append(toks, t)
		if t.kind == "eof" {
			break
		}
	}
	p := &dotParser{toks: toks}
	g := &DotGraph{}
	if p.isKeyword("strict") {
		g.Strict = true
		p.i++
	}
	switch {
	case p.isKeyword("digraph"):
		g.Directed = true
	case p.isKeyword("graph"):
	default:
		return nil, fmt.Errorf("expected graph or digraph, got %q", p.peek().s)
	}
	p.i++
	if p.isID() {
		v, err := p.id()
		if err != nil {
			return nil, err
		}
		g.Name = v.S
	}
	stmts, err := p.block()
	if err != nil {
		return nil, err
	}
	g.Stmts = stmts
	if p.peek().kind != "eof" {
		return nil, fmt.Errorf("trailing input at %d: %q", p.peek().pos, p.peek().s)
	}
	return g, nil
}

func (p *dotParser) block() ([]DotStmt, error) {
	if err := p.expectPunct("{"); err != nil {
		return nil, err
	}
	var out []DotStmt
	for !p.isPunct("}") {
		if p.peek().kind == "eof" {
			return nil, fmt.Errorf("unexpected end of input inside a block")
		}
		if p.isPunct(";") {
			p.i++
			continue
		}
		st, err := p.stmt()
		if err != nil {
			return nil, err
		}
		out = append(out, st)
	}
	p.i++
	return out, nil
}

func (p *dotParser) attrList() (map[string]DotVal, error) {
	attrs := map[string]DotVal{}
	for p.isPunct("[") {
		p.i++
		for !p.isPunct("]") {
			k, err := p.id()
			if err != nil {
				return nil, err
			}
			if err := p.expectPunct("="); err != nil {
				return nil, err
			}
			v, err := p.id()
			if err != nil {
				return nil, err
			}
			attrs[k.S] = v
			if p.isPunct(";") || p.isPunct(",") {
				p.i++
			}
		}
		p.i++
	}
	return attrs, nil
}

func (p *dotParser) nodeID() (string, error) {
	v, err := p.id()
	if err != nil {
		return "", err
	}
	// ports
	for p.isPunct(":") {
		p.i++
		if _, err := p.id(); err != nil {
			return "", err
		}
	}
	return v.S, nil
}

func (p *dotParser) stmt() (DotStmt, error) {
	// subgraph
	if p.isKeyword("subgraph") || p.isPunct("{") {
		sub := &DotSub{}
		if p.isKeyword("subgraph") {
			p.i++
			if p.isID() {
				v, err := p.id()
				if err != nil {
					return DotStmt{}, err
				}
				sub.Name = v.S
			}
		}
		stmts, err := p.block()
		if err != nil {
			return DotStmt{}, err
		}
		sub.Stmts = stmts
		if p.isPunct("->") || p.isPunct("--") {
			return DotStmt{}, fmt.Errorf("edges from subgraphs are not supported by this parser")
		}
		return DotStmt{Kind: "subgraph", Sub: sub}, nil
	}
	// attr statement
	if (p.isKeyword("graph") || p.isKeyword("node") || p.isKeyword("edge")) && p.toks[p.i+1].kind == "punct" && p.toks[p.i+1].s == "[" {
		target := strings.ToLower(p.take().s)
		attrs, err := p.attrList()
		if err != nil {
			return DotStmt{}, err
		}
		return DotStmt{Kind: "attr", Target: target, Attrs: attrs}, nil
	}
	first, err := p.nodeID()
	if err != nil {
		return DotStmt{}, err
	}
	if p.isPunct("=") {
		p.i++
		v, err := p.id()
		if err != nil {
			return DotStmt{}, err
		}
		return DotStmt{Kind: "assign", Target: first, Val: v}, nil
	}
	if p.isPunct("->") || p.isPunct("--") {
		path := []string{first}
		for p.isPunct("->") || p.isPunct("--") {
			p.i++
			n, err := p.nodeID()
			if err != nil {
				return DotStmt{}, err
			}
			path = append(path, n)
		}
		attrs, err := p.attrList()
		if err != nil {
			return DotStmt{}, err
		}
		return DotStmt{Kind: "edge", Path: path, Attrs: attrs}, nil
	}
	attrs, err := p.attrList()
	if err != nil {
		return DotStmt{}, err
	}
	return DotStmt{Kind: "node", Node: first, Attrs: attrs}, nil
}

var htmlTags = map[string]bool{"BR": true, "FONT": true, "B": true, "I": true, "U": true, "O": true, "S": true, "SUB": true, "SUP": true,
	"TABLE": true, "TR": true, "TD": true, "IMG": true, "HR": true, "VR": true}
var htmlVoid = map[string]bool{"BR": true, "IMG": true, "HR": true, "VR": true}

// validateHTMLLabel checks that s is well-formed HTML-like label content:
// text without raw '<', '>' or bare '&'; balanced known tags with quoted
// attributes.
func validateHTMLLabel(s string) error {
	var stack []string
	i := 0
	for i < len(s) {
		c := s[i]
		switch c {
		case '&':
			j := strings.IndexByte(s[i:], ';')
			if j < 2 || j > 10 {
				return fmt.Errorf("bare '&' at %d", i)
			}
			ent := s[i+1 : i+j]
			okEnt := true
			for k, ch := range ent {
				if !(ch == '#' && k == 0) && !(ch >= 'a' && ch <= 'z') && !(ch >= 'A' && ch <= 'Z') && !(ch >= '0' && ch <= '9') {
					okEnt = false
				}
			}
			if !okEnt {
				return fmt.Errorf("malformed entity at %d", i)
			}
			i += j + 1
		case '>':
			return fmt.Errorf("raw '>' in text at %d", i)
		case '<':
			j := strings.IndexByte(s[i:], '>')
			if j < 0 {
				return fmt.Errorf("unterminated tag at %d", i)
			}
			tag := s[i+1 : i+j]
			i += j + 1
			closing := strings.HasPrefix(tag, "/")
			tag = strings.TrimPrefix(tag, "/")
			selfClose := strings.HasSuffix(tag, "/")
			tag = strings.TrimSpace(strings.TrimSuffix(tag, "/"))
			name := tag
			rest := ""
			if k := strings.IndexAny(tag, " \t\n"); k >= 0 {
				name, rest = tag[:k], strings.TrimSpace(tag[k:])
			}
			up := strings.ToUpper(name)
			if !htmlTags[up] {
				return fmt.Errorf("unknown or malformed tag <%s>", tag)
			}
			// attributes: NAME="value" ...
			for rest != "" {
				eq := strings.IndexByte(rest, '=')
				if eq <= 0 {
					return fmt.Errorf("malformed attribute in <%s>", tag)
				}
				rest = strings.TrimSpace(rest[eq+1:])
				if len(rest) == 0 || rest[0] != '"' {
					return fmt.Errorf("unquoted attribute value in <%s>", tag)
				}
				end := strings.IndexByte(rest[1:], '"')
				if end < 0 {
					return fmt.Errorf("unterminated attribute value in <%s>", tag)
				}
				rest = strings.TrimSpace(rest[end+2:])
			}
			switch {
			case closing:
				if len(stack) == 0 || stack[len(stack)-1] != up {
					return fmt.Errorf("unbalanced closing tag </%s>", name)
				}
				stack = stack[:len(stack)-1]
			case selfClose || htmlVoid[up]:
			default:
				stack = append(stack, up)
			}
		default:
			i++
		}
	}
	if len(stack) > 0 {
		return fmt.Errorf("unclosed tag <%s>", stack[len(stack)-1])
	}
	return nil
}

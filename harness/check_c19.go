package harness

import (
	"fmt"
	"regexp"
	"sort"
	"strconv"
	"strings"

	"pgregory.net/rapid"
)

// ---------------------------------------------------------------------------
// C19 — Visualize is a faithful, well-formed picture of the container.
// ---------------------------------------------------------------------------

type vizCluster struct {
	Index   int
	Package string
	Name    string
	Color   string
	Results []string // node ids inside the cluster (other than constructor_N)
	Edges   []vizEdge
}

type vizEdge struct {
	To     string
	Dashed bool
	Ltail  string
}

type vizGraph struct {
	Clusters   map[int]*vizCluster
	Groups     map[string]string   // group node id -> color ("" none)
	GroupEdges map[string][]string // group id -> member ids
	Colored    map[string]string   // top-level nodes with only a color
}

var clusterRE = regexp.MustCompile(`^cluster_(\d+)$`)
var ctorNodeRE = regexp.MustCompile(`^constructor_(\d+)$`)

func extractViz(g *DotGraph) (*vizGraph, error) {
	vg := &vizGraph{Clusters: map[int]*vizCluster{}, Groups: map[string]string{}, GroupEdges: map[string][]string{}, Colored: map[string]string{}}
	if !g.Directed {
		return nil, fmt.Errorf("not a digraph")
	}
	for _, st := range g.Stmts {
		switch st.Kind {
		case "assign", "attr":
		case "node":
			if sh, ok := st.Attrs["shape"]; ok && sh.S == "diamond" {
				if _, dup := vg.Groups[st.Node]; dup {
					return nil, fmt.Errorf("group node %q declared twice", st.Node)
				}
				vg.Groups[st.Node] = st.Attrs["color"].S
				continue
			}
			if c, ok := st.Attrs["color"]; ok && len(st.Attrs) == 1 {
				vg.Colored[st.Node] = c.S
				continue
			}
			return nil, fmt.Errorf("unexpected top-level node %q %v", st.Node, st.Attrs)
		case "edge":
			if len(st.Path) != 2 {
				return nil, fmt.Errorf("unexpected edge path %v", st.Path)
			}
			if m := ctorNodeRE.FindStringSubmatch(st.Path[0]); m != nil {
				idx, _ := strconv.Atoi(m[1])
				cl := vg.Clusters[idx]
				if cl == nil {
					return nil, fmt.Errorf("edge from constructor_%d but there is no cluster_%d before it", idx, idx)
				}
				e := vizEdge{To: st.Path[1], Ltail: st.Attrs["ltail"].S}
				if s, ok := st.Attrs["style"]; ok {
					if s.S != "dashed" {
						return nil, fmt.Errorf("unexpected edge style %q", s.S)
					}
					e.Dashed = true
				}
				if e.Ltail != fmt.Sprintf("cluster_%d", idx) {
					return nil, fmt.Errorf("edge from constructor_%d has ltail %q", idx, e.Ltail)
				}
				cl.Edges = append(cl.Edges, e)
				continue
			}
			// group -> member
			if _, ok := vg.Groups[st.Path[0]]; !ok {
				return nil, fmt.Errorf("edge from %q which is neither a constructor nor a declared group node", st.Path[0])
			}
			vg.GroupEdges[st.Path[0]] = append(vg.GroupEdges[st.Path[0]], st.Path[1])
		case "subgraph":
			m := clusterRE.FindStringSubmatch(st.Sub.Name)
			if m == nil {
				return nil, fmt.Errorf("unexpected subgraph %q", st.Sub.Name)
			}
			idx, _ := strconv.Atoi(m[1])
			if vg.Clusters[idx] != nil {
				return nil, fmt.Errorf("cluster_%d appears twice", idx)
			}
			cl := &vizCluster{Index: idx}
			sawCtor := false
			for _, s2 := range st.Sub.Stmts {
				switch s2.Kind {
				case "assign":
					switch s2.Target {
					case "label":
						cl.Package = s2.Val.S
					case "color":
						cl.Color = s2.Val.S
					default:
						return nil, fmt.Errorf("cluster_%d: unexpected assignment %s", idx, s2.Target)
					}
				case "node":
					if mm := ctorNodeRE.FindStringSubmatch(s2.Node); mm != nil {
						if mm[1] != m[1] || sawCtor {
							return nil, fmt.Errorf("cluster_%d contains %s", idx, s2.Node)
						}
						sawCtor = true
						cl.Name = s2.Attrs["label"].S
						continue
					}
					if _, ok := s2.Attrs["label"]; !ok {
						return nil, fmt.Errorf("cluster_%d: result node %q has no label", idx, s2.Node)
					}
					cl.Results = append(cl.Results, s2.Node)
				default:
					return nil, fmt.Errorf("cluster_%d: unexpected %s statement", idx, s2.Kind)
				}
			}
			if !sawCtor {
				return nil, fmt.Errorf("cluster_%d has no constructor node", idx)
			}
			vg.Clusters[idx] = cl
		}
	}
	return vg, nil
}

func keyNodeID(k MKey) string {
	t := rtype(k.T).String()
	if k.Name != "" {
		return fmt.Sprintf("%s[name=%s]", t, k.Name)
	}
	if k.Group != "" {
		return fmt.Sprintf("%s[group=%s]", t, k.Group)
	}
	return t
}

func groupNodeID(k MKey) string {
	return fmt.Sprintf("[type=%s group=%s]", rtype(k.T).String(), k.Group)
}

var trailingIdx = regexp.MustCompile(`\]\d+$`)

func stripGroupIndex(id string) string {
	if trailingIdx.MatchString(id) {
		return id[:strings.LastIndex(id, "]")+1]
	}
	return id
}

func ctorDisplayName(f *MFn) string {
	if f.F.Bank > 0 {
		return fmt.Sprintf("bank%d.func1", f.F.Bank-1)
	}
	return "makeFuncStub"
}

func sortedJoin(xs []string) string {
	ys := append([]string(nil), xs...)
	sort.Strings(ys)
	return strings.Join(ys, " , ")
}

// expected shape of one constructor's cluster
func expectedCluster(f *MFn) (results []string, edges []string, groupEdges []string) {
	for _, s := range f.Slots {
		for _, k := range s.Keys {
			results = append(results, keyNodeID(k))
		}
	}
	for _, l := range f.Leaves {
		if l.IsGroup {
			groupEdges = append(groupEdges, groupNodeID(l.Key))
			continue
		}
		e := keyNodeID(l.Key)
		if l.Opt {
			e += " (dashed)"
		}
		edges = append(edges, e)
	}
	return
}

// checkPlainViz compares a Visualize output (no error option) with the model.
func checkPlainViz(vg *vizGraph, m *Model) *Failure {
	ctors := m.AllCtors()
	byName := map[string]*MFn{}
	for _, f := range ctors {
		byName[ctorDisplayName(f)] = f
	}
	if len(vg.Clusters) != len(ctors) {
		var names []string
		for _, cl := range vg.Clusters {
			names = append(names, cl.Name)
		}
		return &Failure{"viz-clusters", fmt.Sprintf("%d clusters (%v) but %d accepted constructors", len(vg.Clusters), names, len(ctors))}
	}
	seen := map[string]bool{}
	wantGroups := map[string][]string{} // group node id -> member ids prefix list
	gotMembers := map[string][]string{}
	for _, cl := range vg.Clusters {
		f := byName[cl.Name]
		if f == nil {
			return &Failure{"viz-clusters", fmt.Sprintf("cluster_%d is labelled %q which is not an accepted constructor", cl.Index, cl.Name)}
		}
		if seen[cl.Name] {
			return &Failure{"viz-clusters", fmt.Sprintf("constructor %q has two clusters", cl.Name)}
		}
		seen[cl.Name] = true
		if cl.Package != "verifharness" {
			return &Failure{"viz-clusters", fmt.Sprintf("cluster of %s has package label %q", cl.Name, cl.Package)}
		}
		if cl.Color != "" {
			return &Failure{"viz-clusters", fmt.Sprintf("cluster of %s is coloured %q without an error", cl.Name, cl.Color)}
		}
		wr, we, wg := expectedCluster(f)
		var gr []string
		for _, id := range cl.Results {
			gr = append(gr, stripGroupIndex(id))
			if id != stripGroupIndex(id) {
				gotMembers[id] = append(gotMembers[id], cl.Name)
			}
		}
		if sortedJoin(gr) != sortedJoin(wr) {
			return &Failure{"viz-results", fmt.Sprintf("cluster of %s (f%d) holds result nodes {%s}, its results are {%s}", cl.Name, f.ID, sortedJoin(gr), sortedJoin(wr))}
		}
		var ge, gg []string
		for _, e := range cl.Edges {
			if strings.HasPrefix(e.To, "[type=") {
				if e.Dashed {
					return &Failure{"viz-edges", fmt.Sprintf("group edge of %s is dashed", cl.Name)}
				}
				gg = append(gg, e.To)
				continue
			}
			s := e.To
			if e.Dashed {
				s += " (dashed)"
			}
			ge = append(ge, s)
		}
		if sortedJoin(ge) != sortedJoin(we) {
			return &Failure{"viz-edges", fmt.Sprintf("constructor %s (f%d) has dependency edges {%s}, declared {%s}", cl.Name, f.ID, sortedJoin(ge), sortedJoin(we))}
		}
		if sortedJoin(gg) != sortedJoin(wg) {
			return &Failure{"viz-edges", fmt.Sprintf("constructor %s (f%d) has group edges {%s}, declared {%s}", cl.Name, f.ID, sortedJoin(gg), sortedJoin(wg))}
		}
		for _, g := range wg {
			if _, ok := wantGroups[g]; !ok {
				wantGroups[g] = nil
			}
		}
		for _, s := range f.Slots {
			for _, k := range s.Keys {
				if k.Group != "" {
					wantGroups[groupNodeID(k)] = append(wantGroups[groupNodeID(k)], keyNodeID(k))
				}
			}
		}
	}
	for id := range gotMembers {
		if len(gotMembers[id]) > 1 {
			return &Failure{"viz-groups", fmt.Sprintf("group member node %q appears in several clusters %v", id, gotMembers[id])}
		}
	}
	if len(vg.Groups) != len(wantGroups) {
		var got, want []string
		for g := range vg.Groups {
			got = append(got, g)
		}
		for g := range wantGroups {
			want = append(want, g)
		}
		return &Failure{"viz-groups", fmt.Sprintf("group nodes {%s}, want {%s}", sortedJoin(got), sortedJoin(want))}
	}
	for g, members := range wantGroups {
		if _, ok := vg.Groups[g]; !ok {
			return &Failure{"viz-groups", fmt.Sprintf("no node for value group %s", g)}
		}
		var got []string
		uniq := map[string]bool{}
		for _, id := range vg.GroupEdges[g] {
			if uniq[id] {
				return &Failure{"viz-groups", fmt.Sprintf("group %s is linked to member %q twice", g, id)}
			}
			uniq[id] = true
			if _, ok := gotMembers[id]; !ok {
				return &Failure{"viz-groups", fmt.Sprintf("group %s is linked to %q which is not a result node of any cluster", g, id)}
			}
			got = append(got, stripGroupIndex(id))
		}
		if sortedJoin(got) != sortedJoin(members) {
			return &Failure{"viz-groups", fmt.Sprintf("group %s is linked to {%s}, its members are {%s}", g, sortedJoin(got), sortedJoin(members))}
		}
	}
	if len(vg.Colored) != 0 {
		return &Failure{"viz-colors", fmt.Sprintf("nodes are coloured without an error: %v", vg.Colored)}
	}
	return nil
}

// pathsCover: is there a simple path in the resolution graph from `from` to
// `to` whose inner node set (excluding from, including to when it is a
// constructor) is exactly `want`?
func (m *Model) pathsCover(from, to *MFn, want map[*MFn]bool) bool {
	var dfs func(u *MFn, used map[*MFn]bool) bool
	dfs = func(u *MFn, used map[*MFn]bool) bool {
		if u == to {
			return len(used) == len(want)
		}
		for _, l := range u.Leaves {
			for _, t := range m.Targets(u, l) {
				if !want[t] || used[t] {
					continue
				}
				used[t] = true
				if dfs(t, used) {
					return true
				}
				delete(used, t)
			}
		}
		return false
	}
	return dfs(from, map[*MFn]bool{})
}

func checkC19(c *Case, st *Stats) *Failure {
	tr := Run(c, RunOpts{})
	v := Validate(c, tr, VOpts{})
	l := CaseLabels(c, v)
	nt := false
	var fail *Failure
	setFail := func(f *Failure) {
		if fail == nil && f != nil {
			fail = f
		}
	}
	bankOnly := true
	for _, op := range c.Ops {
		if op.F != nil && op.F.Bank == 0 && op.K != OpInvoke {
			bankOnly = false
		}
	}
	// rebuild the model step by step so that each Visualize op is compared
	// with the registrations accepted before it
	m := NewModel()
	invokeInfo := map[int]*InvokeInfo{}
	for _, ii := range v.Invokes {
		invokeInfo[ii.Op] = ii
	}
	for i, op := range c.Ops {
		out := tr.Ops[i]
		if out.Panicked && op.K != OpInvoke {
			setFail(&Failure{CEscapedPanic, fmt.Sprintf("op %d (%s) panicked: %v", i, op.Short(), out.PanicVal)})
			continue
		}
		switch op.K {
		case OpScope:
			m.AddScope(op.S, op.Name)
		case OpProvide:
			if out.Class == ClOK && op.F != nil {
				m.AddCtor(NewMFn(op.F, op.O, KCtor, m.scope(op.S)))
			} else {
				l["rejected-registration"] = true
			}
		case OpDecorate:
			if out.Class == ClOK && op.F != nil {
				m.AddDeco(NewMFn(op.F, op.O, KDeco, m.scope(op.S)))
			}
		case OpInvoke:
			for _, e := range tr.Events(i) {
				if e.Kind == EvExit && e.Outcome == FaultOK {
					if g := m.Fns[e.Fn]; g != nil {
						g.OkExec = e.Exec
					}
				}
			}
			if out.Err != nil && invokeInfo[i] != nil && !v.Blind {
				setFail(checkCanVisualize(c, tr, m, i, invokeInfo[i], l))
			}
		case OpVisualize:
			g, err := ParseDOT(out.Text)
			if err != nil {
				setFail(&Failure{"viz-syntax", fmt.Sprintf("op %d: Visualize output is not valid DOT: %v\n%s", i, err, out.Text)})
				continue
			}
			l["visualized"] = true
			if !bankOnly || v.Blind {
				continue // syntax only: dynamic functions share one constructor ID
			}
			vg, err := extractViz(g)
			if err != nil {
				setFail(&Failure{"viz-structure", fmt.Sprintf("op %d: unexpected DOT structure: %v\n%s", i, err, out.Text)})
				continue
			}
			withErr := op.ErrOf != nil && *op.ErrOf >= 0 && *op.ErrOf < i && tr.Ops[*op.ErrOf].Err != nil
			if !withErr {
				setFail(checkPlainViz(vg, m))
				if len(vg.Clusters) >= 4 && len(m.Scopes) >= 2 && (len(vg.Groups) > 0 || l["same-key-2-scopes"]) {
					nt = true
				}
				continue
			}
			e := *op.ErrOf
			if !tr.Ops[e].CanV {
				// an error that carries nothing to show leaves the graph as it is
				l["visualize-with-unvisualizable-error"] = true
				setFail(checkPlainViz(vg, m))
				continue
			}
			ii := invokeInfo[e]
			if ii == nil {
				continue
			}
			// the registrations may have changed since the failed Invoke:
			// only compare when nothing was registered in between
			changed := false
			for j := e + 1; j < i; j++ {
				if c.Ops[j].K == OpProvide || c.Ops[j].K == OpDecorate || c.Ops[j].K == OpScope || c.Ops[j].K == OpInvoke {
					changed = true
				}
			}
			if changed {
				continue
			}
			f, deep := checkErrorViz(c, tr, m, vg, e, ii)
			setFail(f)
			if deep {
				nt = true
				l["error-graph-chain>=2"] = true
			}
			l["error-graph"] = true
		}
	}
	ModelLabels(c, v, l)
	st.Record(c, nt, l)
	return fail
}

// failure kind of a failed Invoke: "missing", "ctor", "invoked", "deco", "other"
func failureKind(c *Case, tr *Trace, m *Model, e int, ii *InvokeInfo) (kind string, g *MFn) {
	out := tr.Ops[e]
	for _, ev := range tr.Events(e) {
		if ev.Kind == EvExit && ev.Outcome != FaultOK {
			if ev.Fn == ii.Fn.ID {
				return "invoked", nil
			}
			f := m.Fns[ev.Fn]
			if f == nil {
				return "other", nil
			}
			if f.Kind == KDeco {
				return "deco", f
			}
			if ev.Outcome == FaultPanic && !c.Cfg.Recover {
				return "other", nil
			}
			return "ctor", f
		}
	}
	if out.Class == ClDig && !ii.Avail && !ii.Zones.Any() {
		return "missing", nil
	}
	return "other", nil
}

func closureHasDeco(m *Model, ii *InvokeInfo) bool {
	for id := range ii.MayRun {
		if f := m.Fns[id]; f != nil && f.Kind == KDeco {
			return true
		}
	}
	return false
}

func checkCanVisualize(c *Case, tr *Trace, m *Model, e int, ii *InvokeInfo, l map[string]bool) *Failure {
	kind, _ := failureKind(c, tr, m, e, ii)
	out := tr.Ops[e]
	if closureHasDeco(m, ii) {
		return nil // failures around decorators are outside the claim
	}
	switch kind {
	case "missing", "ctor":
		l["can-visualize-expected"] = true
		if !out.CanV {
			return &Failure{"can-visualize", fmt.Sprintf("op %d failed because of a %s but CanVisualizeError is false: %v", e, map[string]string{"missing": "missing type", "ctor": "constructor failure"}[kind], out.Err)}
		}
	case "invoked":
		l["cannot-visualize-expected"] = true
		if out.CanV {
			return &Failure{"can-visualize", fmt.Sprintf("op %d failed inside the invoked function itself but CanVisualizeError is true: %v", e, out.Err)}
		}
	}
	return nil
}

// checkErrorViz validates the graph drawn for the error of Invoke op e.
func checkErrorViz(c *Case, tr *Trace, m *Model, vg *vizGraph, e int, ii *InvokeInfo) (*Failure, bool) {
	kind, g := failureKind(c, tr, m, e, ii)
	if closureHasDeco(m, ii) || (kind != "missing" && kind != "ctor") {
		return nil, false
	}
	byName := map[string]*MFn{}
	for _, f := range m.AllCtors() {
		byName[ctorDisplayName(f)] = f
	}
	set := map[*MFn]bool{}
	colorOf := map[*MFn]string{}
	for _, cl := range vg.Clusters {
		f := byName[cl.Name]
		if f == nil {
			return &Failure{"viz-error", fmt.Sprintf("error graph contains cluster %q which is not an accepted constructor", cl.Name)}, false
		}
		if cl.Color != "red" && cl.Color != "orange" {
			return &Failure{"viz-error", fmt.Sprintf("constructor %s is kept in the error graph but is not marked as failed (color %q): successful constructors must be pruned", cl.Name, cl.Color)}, false
		}
		set[f] = true
		colorOf[f] = cl.Color
	}
	red, orange := map[string]bool{}, map[string]bool{}
	for id, col := range vg.Colored {
		switch col {
		case "red":
			red[id] = true
		case "orange":
			orange[id] = true
		default:
			return &Failure{"viz-error", fmt.Sprintf("node %q has color %q", id, col)}, false
		}
	}
	if len(red) == 0 {
		return &Failure{"viz-error", fmt.Sprintf("op %d failed (%s) but no node is marked as root cause", e, kind)}, false
	}
	resultIDs := func(f *MFn) map[string]bool {
		out := map[string]bool{}
		for _, s := range f.Slots {
			for _, k := range s.Keys {
				out[keyNodeID(k)] = true
			}
		}
		return out
	}
	// successful constructors are pruned together with every reference to
	// their results: no edge of a constructor that is kept may point at a
	// result that only pruned constructors produce
	kept, prunedIDs := map[string]bool{}, map[string]string{}
	for f := range set {
		for id := range resultIDs(f) {
			kept[id] = true
		}
	}
	for _, f := range m.AllCtors() {
		if !set[f] {
			for id := range resultIDs(f) {
				prunedIDs[id] = ctorDisplayName(f)
			}
		}
	}
	for _, cl := range vg.Clusters {
		for _, ed := range cl.Edges {
			if who, ok := prunedIDs[ed.To]; ok && !kept[ed.To] {
				if _, isGroup := vg.Groups[ed.To]; !isGroup {
					return &Failure{"viz-error", fmt.Sprintf("constructor %s keeps an edge to %q, a result of the pruned (successful) constructor %s", cl.Name, ed.To, who)}, false
				}
			}
		}
	}
	// a group node that is kept links only to members that are drawn (results
	// of the failed constructors kept in the graph)
	drawn := map[string]bool{}
	for _, cl := range vg.Clusters {
		for _, id := range cl.Results {
			drawn[id] = true
		}
	}
	for grp, members := range vg.GroupEdges {
		for _, id := range members {
			if !drawn[id] {
				return &Failure{"viz-error", fmt.Sprintf("group %s is linked to %q, which is not a result of any constructor kept in the error graph", grp, id)}, false
			}
		}
	}
	switch kind {
	case "ctor":
		if !set[g] {
			return &Failure{"viz-error", fmt.Sprintf("the failing constructor f%d (%s) is not in the error graph", g.ID, ctorDisplayName(g))}, false
		}
		for f, col := range colorOf {
			want := "orange"
			if f == g {
				want = "red"
			}
			if col != want {
				return &Failure{"viz-error", fmt.Sprintf("constructor %s is marked %s, want %s (failing constructor is %s)", ctorDisplayName(f), col, want, ctorDisplayName(g))}, false
			}
		}
		if !m.pathsCover(ii.Fn, g, set) {
			var names []string
			for f := range set {
				names = append(names, ctorDisplayName(f))
			}
			return &Failure{"viz-error", fmt.Sprintf("the failed constructors drawn {%s} are not the constructors of a dependency path from the invoked function to the failing constructor %s", sortedJoin(names), ctorDisplayName(g))}, false
		}
		ok := resultIDs(g)
		for id := range red {
			if !ok[stripGroupIndex(id)] {
				return &Failure{"viz-error", fmt.Sprintf("root cause node %q is not a result of the failing constructor %s", id, ctorDisplayName(g))}, false
			}
		}
	case "missing":
		for f, col := range colorOf {
			if col != "orange" {
				return &Failure{"viz-error", fmt.Sprintf("constructor %s is marked %s although the root cause is a missing type", ctorDisplayName(f), col)}, false
			}
		}
		// some function on a path has exactly the red nodes as missing direct dependencies
		found := false
		cands := []*MFn{ii.Fn}
		for f := range set {
			cands = append(cands, f)
		}
		for _, h := range cands {
			miss := map[string]bool{}
			for _, lf := range h.Leaves {
				if !lf.Opt && !lf.IsGroup && m.NoSource(h, lf.Key) {
					miss[keyNodeID(lf.Key)] = true
				}
			}
			if len(miss) == 0 || len(miss) != len(red) {
				continue
			}
			same := true
			for id := range red {
				if !miss[id] {
					same = false
				}
			}
			if !same {
				continue
			}
			if h == ii.Fn {
				if len(set) == 0 {
					found = true
				}
			} else if m.pathsCover(ii.Fn, h, set) {
				found = true
			}
		}
		if !found {
			var names, reds []string
			for f := range set {
				names = append(names, ctorDisplayName(f))
			}
			for id := range red {
				reds = append(reds, id)
			}
			return &Failure{"viz-error", fmt.Sprintf("missing-type error graph: root causes {%s} with failed constructors {%s} do not correspond to any dependency path from the invoked function to a function whose direct dependencies are exactly those missing types", sortedJoin(reds), sortedJoin(names))}, false
		}
	}
	// transitive nodes belong to constructors that are drawn
	for id := range orange {
		ok := false
		for f := range set {
			if resultIDs(f)[stripGroupIndex(id)] {
				ok = true
			}
		}
		if !ok {
			return &Failure{"viz-error", fmt.Sprintf("transitive failure node %q is not a result of any failed constructor drawn", id)}, false
		}
	}
	return nil, len(set) >= 2
}

func genHostileVizCase(t *rapid.T) *Case {
	k := DefaultKnobs()
	k.WVisualize = 5
	k.WBadProvide = 6
	k.WString = 1
	k.MaxOps = 12
	c := GenCase(t, k)
	// add registrations with hostile but legal names and types
	n := rapid.IntRange(1, 3).Draw(t, "nhost")
	id := 1000
	for i := 0; i < n; i++ {
		id++
		f := &Fn{ID: id}
		switch rapid.IntRange(0, 3).Draw(t, "hk") {
		case 0:
			f.R = []Result{{Host: rapid.SampledFrom([]string{"chan", "bichan", "map", "func", "funcarg", "arr", "pp", "any"}).Draw(t, "ht")}}
		case 1:
			f.R = []Result{{T: "T0"}}
			f.P = []Param{{Host: rapid.SampledFrom([]string{"chan", "bichan", "map", "func", "funcarg", "sliceI0"}).Draw(t, "hp")}}
		case 2:
			f.R = []Result{{IsObj: true, Obj: []Result{{T: "T1", Name: rapid.SampledFrom(hostileNames).Draw(t, "hn")}}}}
		default:
			f.R = []Result{{IsObj: true, Obj: []Result{{T: "T2", Group: rapid.SampledFrom([]string{"<i>", "a&b", "x\"y", "g>h", "]"}).Draw(t, "hg")}}}}
			f.P = []Param{{IsObj: true, Obj: []Param{{T: "T1", Name: rapid.SampledFrom(hostileNames).Draw(t, "hn2"), Opt: true}}}}
		}
		op := Op{K: OpProvide, S: 0, F: f}
		if rapid.Bool().Draw(t, "nameopt") && len(f.R) == 1 && !f.R[0].isObj() {
			op.O = &Opts{Name: rapid.SampledFrom(hostileNames).Draw(t, "on")}
		}
		c.Ops = append(c.Ops, op, Op{K: OpVisualize})
	}
	return c
}

func init() {
	register(&PropDef{
		ID:          "C19",
		Rule:        "(1) programs over the declared function bank (distinct constructor IDs) on scope trees with rejected registrations in between, Visualize after any step, parsed by the harness's own DOT parser and compared structurally with the registration model (clusters, result nodes, dependency edges dashed iff optional, group nodes and member links); (2) failed Invokes with one root cause (missing type at depth d, or one failing constructor, also behind groups) visualized with VisualizeError: root-cause/transitive colouring, pruning, CanVisualizeError; (3) dynamic functions with hostile names and channel/func/map types for the syntax clause only. non-trivial = a structural comparison with >=4 clusters in >=2 scopes and a group or a key shared between scopes, or an error graph whose transitive chain has >=2 constructors; distinct by FNV-64 of the canonical IR",
		Assumptions: []string{"DOT validity is judged by the harness's own parser (lexical grammar incl. quoted and HTML IDs, statements, HTML-like label well-formedness), not by Graphviz", "group member node indices are treated as opaque", "failures in or around decorators are outside the claim and skipped (counted)"},
		Gen: func(t *rapid.T, thorough bool) *Case {
			if rapid.IntRange(0, 9).Draw(t, "kind") < 2 {
				return genHostileVizCase(t)
			}
			bk := DefaultBankKnobs()
			bk.WVisualize = 5
			bk.PVisErr = 85
			bk.WInvoke = 5
			bk.WDecorate = 1
			bk.PFault, bk.PPanic = 20, 30
			bk.PFaultKind = 35
			bk.NoInvokeEK = true
			bk.PAvail = 75
			bk.PDeep, bk.PDeepFail, bk.PVisAfter, bk.PChain = 75, 35, 60, 60
			bk.MaxOps = 26
			if thorough {
				bk.MaxOps, bk.MaxScopes = 30, 6
			}
			return GenBankCase(t, bk)
		},
		Check: checkC19,
	})
}

package harness

import (
	"fmt"
	"sort"
	"strings"
)

// ---------------------------------------------------------------------------
// Registration model (DESIGN.md §1.3, Appendix A). Written from the property
// statements and doc.go; it does not simulate dig's evaluation order.
// ---------------------------------------------------------------------------

type MKey struct{ T, Name, Group string }

func (k MKey) String() string {
	if k.Group != "" {
		return fmt.Sprintf("%s[group=%q]", k.T, k.Group)
	}
	if k.Name != "" {
		return fmt.Sprintf("%s[name=%q]", k.T, k.Name)
	}
	return k.T
}

type MSlot struct {
	Path    string
	Keys    []MKey
	T       string
	Slice   bool // value is a slice of N members (flatten result, decorated group)
	N       int
	Flatten bool
	Zero    bool   // the function returns the zero value for this result
	SlT     string // named slice type variant of a slice-typed result
	// ZeroFirst: the first element of a slice-typed result (flatten result,
	// decorated group) is the zero value
	ZeroFirst bool
	Rep       bool // every element of a slice-typed result is the same value
}

type MLeaf struct {
	Path    string // e.g. "0", "1.2"
	Top     int
	Key     MKey // group leaves: T is the element type
	Opt     bool
	Soft    bool
	IsGroup bool
	ObjPath string // path of the enclosing object ("" if positional)
}

const (
	KCtor = iota
	KDeco
	KInvoke
)

type MFn struct {
	ID     int
	F      *Fn
	O      *Opts
	Kind   int
	View   int // scope the function was given to
	Home   int // scope that owns its registration (root if exported)
	Op     int
	Leaves []MLeaf
	Slots  []MSlot

	OkExec  int // exec number of the successful execution, -1 if none
	Execs   int
	Fails   int
	OkToks  []int64
	OkAtLog int
}

type MScope struct {
	Idx    int
	Parent int
	Name   string
	Kids   []int
	Ctors  []*MFn        // home == this scope, in registration order
	Decos  map[MKey]*MFn // decorators registered in this scope
	DecoL  []*MFn
}

type Model struct {
	Scopes []*MScope
	Fns    map[int]*MFn // accepted constructors and decorators by fn id
	// Unspec[scope][key]: whether `key` is provided in `scope` is not
	// specified: a constructor there lists its own result type in dig.As
	// together with other interfaces ("only the listed interfaces" and "not
	// under its own type" pull in opposite directions; dig drops the own type)
	Unspec map[int]map[MKey]bool
}

// ownInAs lists the keys (own result type, name) of results whose As list
// contains the result's own type together with at least one other interface.
func ownInAs(f *Fn, o *Opts) []MKey {
	if o == nil || len(o.As) < 2 {
		return nil
	}
	var out []MKey
	var walk func(r Result, top bool)
	walk = func(r Result, top bool) {
		if r.isObj() {
			for _, q := range r.Obj {
				walk(q, false)
			}
			return
		}
		if r.Group != "" || (top && o.Group != "") {
			return
		}
		own, other := false, false
		for _, a := range o.As {
			if a == r.T {
				own = true
			} else {
				other = true
			}
		}
		if own && other {
			name := r.Name
			if top {
				name = o.Name
			}
			out = append(out, MKey{T: r.T, Name: name})
		}
	}
	for _, r := range f.R {
		walk(r, true)
	}
	return out
}

// MarkUnspec records the own-type keys of an accepted constructor.
func (m *Model) MarkUnspec(f *MFn) {
	for _, k := range ownInAs(f.F, f.O) {
		if m.Unspec == nil {
			m.Unspec = map[int]map[MKey]bool{}
		}
		if m.Unspec[f.Home] == nil {
			m.Unspec[f.Home] = map[MKey]bool{}
		}
		m.Unspec[f.Home][k] = true
	}
}

// UnspecVisible: is key k in the unspecified state in some scope on the path
// from view to the root?
func (m *Model) UnspecVisible(view int, k MKey) bool {
	for _, a := range m.Anc(view) {
		if m.Unspec[a][k] {
			return true
		}
	}
	return false
}

func NewModel() *Model {
	m := &Model{Fns: map[int]*MFn{}}
	m.Scopes = append(m.Scopes, &MScope{Idx: 0, Parent: -1, Decos: map[MKey]*MFn{}})
	return m
}

func (m *Model) AddScope(parent int, name string) int {
	if parent < 0 || parent >= len(m.Scopes) {
		parent = 0
	}
	s := &MScope{Idx: len(m.Scopes), Parent: parent, Name: name, Decos: map[MKey]*MFn{}}
	m.Scopes = append(m.Scopes, s)
	m.Scopes[parent].Kids = append(m.Scopes[parent].Kids, s.Idx)
	return s.Idx
}

func (m *Model) scope(i int) int {
	if i < 0 || i >= len(m.Scopes) {
		return 0
	}
	return i
}

// Anc returns s, parent(s), ..., root.
func (m *Model) Anc(s int) []int {
	var out []int
	for s = m.scope(s); s >= 0; s = m.Scopes[s].Parent {
		out = append(out, s)
	}
	return out
}

func (m *Model) IsAnc(a, s int) bool { // a ∈ anc(s)
	for _, x := range m.Anc(s) {
		if x == a {
			return true
		}
	}
	return false
}

func (m *Model) Depth(s int) int { return len(m.Anc(s)) - 1 }

// Subtree returns s and all its descendants.
func (m *Model) Subtree(s int) []int {
	out := []int{s}
	for _, k := range m.Scopes[s].Kids {
		out = append(out, m.Subtree(k)...)
	}
	return out
}

// ---------------------------------------------------------------------------
// Signature analysis
// ---------------------------------------------------------------------------

func parseGroupOpt(s string) (name string, flatten, soft bool, ok bool) {
	parts := strings.Split(s, ",")
	name = parts[0]
	ok = true
	for _, p := range parts[1:] {
		switch p {
		case "flatten":
			flatten = true
		case "soft":
			soft = true
		default:
			ok = false
		}
	}
	return
}

func leavesOf(ps []Param) []MLeaf {
	var out []MLeaf
	var walk func(p Param, path string, top int, obj string)
	walk = func(p Param, path string, top int, obj string) {
		if p.isObj() {
			for i, q := range p.Obj {
				walk(q, fmt.Sprintf("%s.%d", path, i), top, path)
			}
			return
		}
		l := MLeaf{Path: path, Top: top, ObjPath: obj}
		if p.Group != "" {
			l.IsGroup = true
			l.Soft = p.Soft
			l.Key = MKey{T: p.T, Group: p.Group}
		} else {
			l.Key = MKey{T: p.T, Name: p.Name}
			l.Opt = p.Opt
		}
		out = append(out, l)
	}
	for i, p := range ps {
		walk(p, fmt.Sprint(i), i, "")
	}
	return out
}

// asKeys applies dig's As rule: the listed interfaces (minus the result's own
// type) replace the concrete type; if nothing remains the own type is used.
func asTypes(own string, as []string) []string {
	var out []string
	for _, a := range as {
		if a == own {
			continue
		}
		out = append(out, a)
	}
	if len(out) == 0 {
		return []string{own}
	}
	return out
}

func slotsOf(f *Fn, o *Opts, deco bool) []MSlot {
	var out []MSlot
	var optName, optGroup string
	var optFlatten bool
	var as []string
	if o != nil && !deco {
		optName = o.Name
		if o.Group != "" {
			optGroup, optFlatten, _, _ = parseGroupOpt(o.Group)
		}
		as = o.As
	}
	var walk func(r Result, path string, top bool)
	walk = func(r Result, path string, top bool) {
		if r.isObj() {
			for i, q := range r.Obj {
				walk(q, fmt.Sprintf("%s.%d", path, i), false)
			}
			return
		}
		s := MSlot{Path: path, T: r.T, N: 1, Zero: r.Zero && !r.Slice && !r.Flatten, SlT: r.SlT, ZeroFirst: r.Zero && (r.Slice || r.Flatten) && r.N > 0, Rep: r.Rep && !r.Zero && (r.Slice || r.Flatten)}
		name, group, flatten := r.Name, r.Group, r.Flatten
		if top {
			name, group, flatten = optName, optGroup, optFlatten
		} else if group == "" && name == "" {
			// fields inherit the Name option? dig rejects Name/Group options
			// with result objects, so nothing to inherit.
		}
		types := []string{r.T}
		if top || (group == "" && !deco) {
			// dig threads the As option into plain fields of result
			// objects as well; generators do not combine As with Out.
			types = asTypes(r.T, as)
		}
		if group != "" {
			if flatten || r.Slice {
				s.Slice, s.N = true, r.N
				s.Flatten = flatten
			}
			for _, t := range types {
				s.Keys = append(s.Keys, MKey{T: t, Group: group})
			}
		} else {
			for _, t := range types {
				s.Keys = append(s.Keys, MKey{T: t, Name: name})
			}
			if r.Slice {
				s.Slice, s.N = true, r.N
			}
		}
		out = append(out, s)
	}
	for i, r := range f.R {
		walk(r, fmt.Sprint(i), true)
	}
	return out
}

func NewMFn(f *Fn, o *Opts, kind, view int) *MFn {
	mf := &MFn{ID: f.ID, F: f, O: o, Kind: kind, View: view, Home: view, OkExec: -1}
	mf.Leaves = leavesOf(f.P)
	if kind != KInvoke {
		mf.Slots = slotsOf(f, o, kind == KDeco)
	}
	if kind == KCtor && o != nil && o.Export {
		mf.Home = 0
	}
	return mf
}

func (f *MFn) Keys() []MKey {
	var out []MKey
	for _, s := range f.Slots {
		out = append(out, s.Keys...)
	}
	return out
}

// SlotFor returns the index of the slot that provides key k (first match).
func (f *MFn) SlotFor(k MKey) int {
	for i, s := range f.Slots {
		for _, kk := range s.Keys {
			if kk == k {
				return i
			}
		}
	}
	return -1
}

func (f *MFn) SlotsFor(k MKey) []int {
	var out []int
	for i, s := range f.Slots {
		for _, kk := range s.Keys {
			if kk == k {
				out = append(out, i)
				break
			}
		}
	}
	return out
}

func (f *MFn) String() string {
	kind := map[int]string{KCtor: "ctor", KDeco: "deco", KInvoke: "invoke"}[f.Kind]
	return fmt.Sprintf("%s f%d@%d", kind, f.ID, f.View)
}

// ---------------------------------------------------------------------------
// Registration
// ---------------------------------------------------------------------------

// DupProvide applies the duplicate rule of C09: a single-value key may be
// provided at most once per home scope, and at most once within one
// constructor. Groups never collide. Returns a description or "".
func (m *Model) DupProvide(f *MFn) string {
	seen := map[MKey]bool{}
	for _, s := range f.Slots {
		for _, k := range s.Keys {
			if k.Group != "" {
				continue
			}
			if seen[k] {
				return fmt.Sprintf("key %v twice within one constructor", k)
			}
			seen[k] = true
			for _, g := range m.Scopes[f.Home].Ctors {
				if g.SlotFor(k) >= 0 {
					return fmt.Sprintf("key %v already provided in scope %d by f%d", k, f.Home, g.ID)
				}
			}
		}
	}
	return ""
}

// DupDecorate: a scope accepts at most one decorator per key.
func (m *Model) DupDecorate(f *MFn) string {
	seen := map[MKey]bool{}
	for _, k := range f.Keys() {
		if seen[k] {
			return fmt.Sprintf("key %v twice within one decorator", k)
		}
		seen[k] = true
		if d, ok := m.Scopes[f.View].Decos[k]; ok {
			return fmt.Sprintf("key %v already decorated in scope %d by f%d", k, f.View, d.ID)
		}
	}
	return ""
}

func (m *Model) AddCtor(f *MFn) {
	m.Fns[f.ID] = f
	m.Scopes[f.Home].Ctors = append(m.Scopes[f.Home].Ctors, f)
}

func (m *Model) AddDeco(f *MFn) {
	m.Fns[f.ID] = f
	sc := m.Scopes[f.View]
	for _, k := range f.Keys() {
		sc.Decos[k] = f
	}
	sc.DecoL = append(sc.DecoL, f)
}

// ---------------------------------------------------------------------------
// Static queries
// ---------------------------------------------------------------------------

// NearestProvider returns the constructor providing single key k whose home
// is nearest on anc(view).
func (m *Model) NearestProvider(view int, k MKey) *MFn {
	for _, s := range m.Anc(view) {
		for _, c := range m.Scopes[s].Ctors {
			if c.SlotFor(k) >= 0 {
				return c
			}
		}
	}
	return nil
}

// AnyProvider reports whether some constructor for k is visible from view.
func (m *Model) AnyProvider(view int, k MKey) bool { return m.NearestProvider(view, k) != nil }

// Feeders returns all constructors feeding group key k visible from view.
func (m *Model) Feeders(view int, k MKey) []*MFn {
	var out []*MFn
	for _, s := range m.Anc(view) {
		for _, c := range m.Scopes[s].Ctors {
			if c.SlotFor(k) >= 0 {
				out = append(out, c)
			}
		}
	}
	return out
}

// NearestDeco returns the decorator for k registered in the first scope of
// anc(view) that has one, ignoring `skip`.
func (m *Model) NearestDeco(view int, k MKey, skip *MFn) *MFn {
	for _, s := range m.Anc(view) {
		if d, ok := m.Scopes[s].Decos[k]; ok && d != skip {
			return d
		}
	}
	return nil
}

// DecosOnPath returns all decorators for k on anc(view) (nearest first),
// ignoring skip.
func (m *Model) DecosOnPath(view int, k MKey, skip *MFn) []*MFn {
	var out []*MFn
	for _, s := range m.Anc(view) {
		if d, ok := m.Scopes[s].Decos[k]; ok && d != skip {
			out = append(out, d)
		}
	}
	return out
}

// selfFor returns f if f is a decorator of key k (its own input for k is
// resolved without it), else nil.
func selfFor(f *MFn, k MKey) *MFn {
	if f != nil && f.Kind == KDeco && f.SlotFor(k) >= 0 {
		return f
	}
	return nil
}

// Producer describes who is expected to produce the value of a leaf.
type Producer struct {
	Fn   *MFn
	Slot int
}

// ExpectSingle: the function whose output a consumer `f` (viewing from its
// View) must receive for single leaf key k. nil if none is visible.
func (m *Model) ExpectSingle(f *MFn, k MKey) *Producer {
	if d := m.NearestDeco(f.View, k, selfFor(f, k)); d != nil {
		return &Producer{d, d.SlotFor(k)}
	}
	if p := m.NearestProvider(f.View, k); p != nil {
		return &Producer{p, p.SlotFor(k)}
	}
	return nil
}

// NoSource: a required single leaf that resolution cannot satisfy: nothing is
// visible for it, or only a decorator (a decorator is not a constructor).
func (m *Model) NoSource(f *MFn, k MKey) bool {
	return m.ExpectSingle(f, k) == nil || !m.AnyProvider(f.View, k)
}

// ExpectGroup: either the nearest decorator of the group, or the list of
// visible feeders.
func (m *Model) ExpectGroup(f *MFn, k MKey) (deco *MFn, feeders []*MFn) {
	if d := m.NearestDeco(f.View, k, selfFor(f, k)); d != nil {
		return d, nil
	}
	return nil, m.Feeders(f.View, k)
}

// ---------------------------------------------------------------------------
// Resolution graph R (run-time resolution, decorators included)
// ---------------------------------------------------------------------------

// Targets returns the functions that resolving leaf l of f may execute
// directly (one hop). soft groups without decorators yield nothing.
func (m *Model) Targets(f *MFn, l MLeaf) []*MFn {
	self := selfFor(f, l.Key)
	if l.IsGroup {
		if ds := m.DecosOnPath(f.View, l.Key, self); len(ds) > 0 {
			return ds
		}
		if l.Soft {
			return nil
		}
		return m.Feeders(f.View, l.Key)
	}
	if d := m.NearestDeco(f.View, l.Key, self); d != nil {
		if !l.Opt && !m.AnyProvider(f.View, l.Key) {
			// a required dependency on a key that is decorated but not
			// provided is missing: resolution never reaches the decorator
			return nil
		}
		return []*MFn{d}
	}
	if p := m.NearestProvider(f.View, l.Key); p != nil {
		return []*MFn{p}
	}
	return nil
}

// CycleInfo describes what a DFS over R from f finds.
type CycleInfo struct {
	CtorCycle bool  // a cycle consisting of constructors only
	DecoCycle bool  // a cycle through at least one decorator (KF-DECO-CYCLE pattern)
	Path      []int // fn ids of one cycle found
}

func (m *Model) FindCycles(f *MFn) CycleInfo {
	var ci CycleInfo
	state := map[*MFn]int{} // 1 on stack, 2 done
	var stack []*MFn
	var dfs func(g *MFn)
	dfs = func(g *MFn) {
		state[g] = 1
		stack = append(stack, g)
		if g.OkExec >= 0 && g != f {
			// already built: its values are cached, resolution stops here
			stack = stack[:len(stack)-1]
			state[g] = 2
			return
		}
		for _, l := range g.Leaves {
			for _, t := range m.Targets(g, l) {
				switch state[t] {
				case 0:
					dfs(t)
				case 1:
					// cycle: stack from t to g
					hasDeco := false
					var path []int
					on := false
					for _, x := range stack {
						if x == t {
							on = true
						}
						if on {
							path = append(path, x.ID)
							if x.Kind == KDeco {
								hasDeco = true
							}
						}
					}
					if hasDeco {
						ci.DecoCycle = true
					} else {
						ci.CtorCycle = true
					}
					if ci.Path == nil {
						ci.Path = path
					}
				}
			}
		}
		stack = stack[:len(stack)-1]
		state[g] = 2
	}
	dfs(f)
	return ci
}

// ---------------------------------------------------------------------------
// Cycle readings (C05b)
// ---------------------------------------------------------------------------

// providesFor reports whether v provides a value for leaf l (any slot).
func providesFor(v *MFn, l MLeaf) bool { return v.Kind == KCtor && v.SlotFor(l.Key) >= 0 }

// strictEdges: the strict per-scope reading — as seen from scope S, u depends
// on every constructor visible from S that provides a key of one of u's
// parameters (all providers on the path, soft and optional edges included).
func (m *Model) strictEdges(S int, u *MFn, extra *MFn) []*MFn {
	var out []*MFn
	for _, a := range m.Anc(S) {
		cs := m.Scopes[a].Ctors
		if extra != nil && extra.Home == a {
			cs = append(append([]*MFn(nil), cs...), extra)
		}
		for _, v := range cs {
			for _, l := range u.Leaves {
				if providesFor(v, l) {
					out = append(out, v)
					break
				}
			}
		}
	}
	return out
}

// DigCycle reports whether adding constructor f closes a cycle in the strict
// reading of some scope of the subtree of its home.
func (m *Model) DigCycle(f *MFn) bool {
	for _, S := range m.Subtree(f.Home) {
		state := map[*MFn]int{}
		var dfs func(u *MFn) bool
		dfs = func(u *MFn) bool {
			state[u] = 1
			for _, v := range m.strictEdges(S, u, f) {
				if state[v] == 1 {
					return true
				}
				if state[v] == 0 && dfs(v) {
					return true
				}
			}
			state[u] = 2
			return false
		}
		if dfs(f) {
			return true
		}
	}
	return false
}

// onOnePath: some scope sees both homes.
func (m *Model) onOnePath(a, b int) bool { return m.IsAnc(a, b) || m.IsAnc(b, a) }

// AllCtors lists accepted constructors in registration order per scope.
func (m *Model) AllCtors() []*MFn {
	var out []*MFn
	for _, sc := range m.Scopes {
		out = append(out, sc.Ctors...)
	}
	return out
}

// MaxEdges: the most permissive reading — u depends on every constructor
// that provides one of its parameter keys and that is visible together with
// u from some scope.
func (m *Model) MaxEdges(u *MFn, all []*MFn) []*MFn {
	var out []*MFn
	for _, v := range all {
		if !m.onOnePath(u.Home, v.Home) {
			continue
		}
		for _, l := range u.Leaves {
			if providesFor(v, l) {
				out = append(out, v)
				break
			}
		}
	}
	return out
}

// MaxCyclic reports whether the permissive graph over `all` has a cycle.
func (m *Model) MaxCyclic(all []*MFn) bool {
	state := map[*MFn]int{}
	var dfs func(u *MFn) bool
	dfs = func(u *MFn) bool {
		state[u] = 1
		for _, v := range m.MaxEdges(u, all) {
			if state[v] == 1 {
				return true
			}
			if state[v] == 0 && dfs(v) {
				return true
			}
		}
		state[u] = 2
		return false
	}
	for _, u := range all {
		if state[u] == 0 && dfs(u) {
			return true
		}
	}
	return false
}

// ---------------------------------------------------------------------------
// Availability, mayRun, mustRun
// ---------------------------------------------------------------------------

type availCtx struct {
	m     *Model
	memo  map[*MFn]int // 0 unknown, 1 visiting, 2 avail, 3 unavail
	cycle bool
}

func (m *Model) newAvail() *availCtx { return &availCtx{m: m, memo: map[*MFn]int{}} }

func (a *availCtx) fn(f *MFn) bool {
	if f.OkExec >= 0 {
		// already built: its values are cached, nothing needs resolving
		return true
	}
	switch a.memo[f] {
	case 1:
		a.cycle = true
		return true
	case 2:
		return true
	case 3:
		return false
	}
	a.memo[f] = 1
	ok := true
	for _, l := range f.Leaves {
		if l.Opt {
			// optional leaves never make the function unavailable, but
			// still explore to detect cycles
			a.leaf(f, l)
			continue
		}
		if !a.leaf(f, l) {
			ok = false
		}
	}
	if ok {
		a.memo[f] = 2
	} else {
		a.memo[f] = 3
	}
	return ok
}

func (a *availCtx) leaf(f *MFn, l MLeaf) bool {
	m := a.m
	self := selfFor(f, l.Key)
	if l.IsGroup {
		if ds := m.DecosOnPath(f.View, l.Key, self); len(ds) > 0 {
			ok := true
			for _, d := range ds {
				if !a.fn(d) {
					ok = false
				}
			}
			return ok
		}
		if l.Soft {
			return true
		}
		ok := true
		for _, c := range m.Feeders(f.View, l.Key) {
			if !a.fn(c) {
				ok = false
			}
		}
		return ok
	}
	if d := m.NearestDeco(f.View, l.Key, self); d != nil {
		if !m.AnyProvider(f.View, l.Key) {
			// a decorator is not a constructor (what happens once such a
			// decorator has produced a value is a zone, see ZonesOf)
			return false
		}
		return a.fn(d)
	}
	if p := m.NearestProvider(f.View, l.Key); p != nil {
		return a.fn(p)
	}
	return false
}

// Available reports whether every required leaf of f is transitively
// available.
func (m *Model) Available(f *MFn) (ok bool, sawCycle bool) {
	a := m.newAvail()
	ok = a.fn(f)
	return ok, a.cycle
}

func (m *Model) LeafAvailable(f *MFn, l MLeaf) bool {
	a := m.newAvail()
	a.memo[f] = 1
	return a.leaf(f, l)
}

// MayRun: every function an Invoke of f may execute (upper bound): the
// closure of f over the resolution graph. A consumer of a decorated key
// depends on the decorator; the providers behind it are reachable only
// through the decorator's own parameters. For value groups every decorator on
// the scope path runs (outermost first), and the feeders are reached directly
// only when nothing decorates the group. Soft groups reach nothing.
func (m *Model) MayRun(f *MFn) map[int]bool {
	out := map[int]bool{}
	var visit func(g *MFn)
	visit = func(g *MFn) {
		for _, l := range g.Leaves {
			for _, t := range m.Targets(g, l) {
				if !out[t.ID] {
					out[t.ID] = true
					visit(t)
				}
			}
		}
	}
	visit(f)
	return out
}

// MustRun: functions that must have a successful execution once an Invoke of
// f has succeeded (lower bound), following exactly value(). Functions that
// already have a successful execution are included but not descended into.
func (m *Model) MustRun(f *MFn) map[int]bool {
	return m.MustRunP(f, func(t *MFn) bool { return t.OkExec >= 0 })
}

// MustRunP is MustRun with an explicit pruning predicate.
func (m *Model) MustRunP(f *MFn, prune func(*MFn) bool) map[int]bool {
	out := map[int]bool{}
	var visit func(g *MFn)
	add := func(t *MFn) {
		if !out[t.ID] {
			out[t.ID] = true
			if !prune(t) {
				visit(t)
			}
		}
	}
	visit = func(g *MFn) {
		for _, l := range g.Leaves {
			self := selfFor(g, l.Key)
			if l.Opt && !m.LeafAvailable(g, l) {
				continue
			}
			if l.IsGroup {
				if d := m.NearestDeco(g.View, l.Key, self); d != nil {
					add(d)
					continue
				}
				if l.Soft {
					continue
				}
				for _, c := range m.Feeders(g.View, l.Key) {
					add(c)
				}
				continue
			}
			if d := m.NearestDeco(g.View, l.Key, self); d != nil {
				add(d)
				continue
			}
			if p := m.NearestProvider(g.View, l.Key); p != nil {
				add(p)
			}
		}
	}
	visit(f)
	return out
}

// Zones: parts of the input space where no property states the outcome.
type Zones struct {
	DecoNoProvider bool // a key in the closure is decorated but has no visible constructor
	DecoCycle      bool // KF-DECO-CYCLE pattern reachable
	AsOwn          bool // a leaf's key is one that a constructor lists as its own type in dig.As next to other interfaces
	OptDecoUnavail bool // optional leaf whose decorator has unavailable dependencies (C04 carve-out)
	SoftDecorated  bool // soft group that is decorated (C11 carve-out)
	CtorCycle      bool // run-time constructor cycle reachable
	GraphCyclic    bool // the registered graph has a cycle under the permissive reading (cycle verdicts allowed)
}

func (z Zones) Any() bool {
	return z.DecoNoProvider || z.DecoCycle || z.OptDecoUnavail || z.SoftDecorated || z.CtorCycle || z.GraphCyclic || z.AsOwn
}

// ZonesOf explores the closure of f.
func (m *Model) ZonesOf(f *MFn) Zones {
	var z Zones
	ci := m.FindCycles(f)
	z.DecoCycle, z.CtorCycle = ci.DecoCycle, ci.CtorCycle
	// Invoke verifies the graph of the invoking scope only: constructors of
	// scopes that are not visible from it cannot make it report a cycle
	var vis []*MFn
	for _, c := range m.AllCtors() {
		if m.IsAnc(c.Home, f.View) {
			vis = append(vis, c)
		}
	}
	z.GraphCyclic = m.MaxCyclic(vis)
	seen := map[*MFn]bool{}
	var visit func(g *MFn)
	visit = func(g *MFn) {
		if seen[g] {
			return
		}
		seen[g] = true
		for _, l := range g.Leaves {
			self := selfFor(g, l.Key)
			if !l.IsGroup && m.UnspecVisible(g.View, l.Key) {
				z.AsOwn = true
			}
			if l.IsGroup {
				ds := m.DecosOnPath(g.View, l.Key, self)
				if l.Soft && len(ds) > 0 {
					z.SoftDecorated = true
				}
			} else if d := m.NearestDeco(g.View, l.Key, self); d != nil {
				if !m.AnyProvider(g.View, l.Key) {
					// A decorator is not a constructor: a *required*
					// dependency on the key is simply missing (C04) as
					// long as the decorator cannot have produced a value
					// - it has not run, and nothing can make it run (an
					// optional request for the key, or a request from a
					// place where one of its keys does have a constructor).
					// Everything else about such keys is unspecified.
					if l.Opt || d.Execs > 0 || m.decoHasProvidedKey(d) {
						z.DecoNoProvider = true
					}
				}
				if l.Opt {
					if ok, _ := m.Available(d); !ok {
						z.OptDecoUnavail = true
					}
				}
			}
			for _, t := range m.Targets(g, l) {
				visit(t)
			}
		}
	}
	visit(f)
	return z
}

// decoHasProvidedKey: some key of decorator d has a constructor somewhere in
// the tree (a consumer that sees that constructor makes the decorator run,
// and its outputs then exist in the decorator's scope).
func (m *Model) decoHasProvidedKey(d *MFn) bool {
	for _, k := range d.Keys() {
		for _, c := range m.AllCtors() {
			if k.Group == "" && c.SlotFor(k) >= 0 {
				return true
			}
		}
	}
	return false
}

// sortedIDs is a helper for messages.
func sortedIDs(s map[int]bool) []int {
	var out []int
	for k, v := range s {
		if v {
			out = append(out, k)
		}
	}
	sort.Ints(out)
	return out
}

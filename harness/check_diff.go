package harness

import (
	"fmt"

	"pgregory.net/rapid"
)

// ---------------------------------------------------------------------------
// Differential checks: C06 (rejected registration leaves no trace), C14 (bad
// input: no panic, rejected input changes nothing), C17 (DryRun).
// ---------------------------------------------------------------------------

var cmpAll = CmpOpts{Class: true, Executed: true, Prov: true, Info: true, Text: true}

// keysTouched reports whether op j mentions one of the keys.
func keysTouched(op Op, keys map[MKey]bool) bool {
	if op.F == nil {
		return false
	}
	kind := KCtor
	if op.K == OpDecorate {
		kind = KDeco
	}
	if op.K == OpInvoke {
		kind = KInvoke
	}
	mf := NewMFn(op.F, op.O, kind, op.S)
	for _, k := range mf.Keys() {
		if keys[k] {
			return true
		}
	}
	for _, l := range mf.Leaves {
		if keys[l.Key] {
			return true
		}
	}
	return false
}

type rejInfo struct {
	idx   int
	cause string // "dup", "cycle", "dup-decorate", "invalid"
}

func analyseRejections(c *Case, tr *Trace, v *VResult, withInvokes bool) []rejInfo {
	var out []rejInfo
	for i, op := range c.Ops {
		o := tr.Ops[i]
		switch op.K {
		case OpProvide, OpDecorate:
			if o.Class == ClOK || o.Class == "" || o.Class == "skipped" || o.Panicked {
				continue
			}
			cause := "invalid"
			if o.Class == ClCycle {
				cause = "cycle"
			} else if v.DupPred[i] != "" {
				cause = "dup"
				if op.K == OpDecorate {
					cause = "dup-decorate"
				}
			}
			out = append(out, rejInfo{i, cause})
		case OpInvoke:
			// an Invoke that was rejected before anything ran
			if withInvokes && o.Class != ClOK && !o.Panicked && o.Class != ClRisky && o.Ev1 == o.Ev0 {
				out = append(out, rejInfo{i, "invoke-rejected"})
			}
		}
	}
	return out
}

func diffRejectedCheck(id string, panicsAreViolations bool, withInvokes bool) func(c *Case, st *Stats) *Failure {
	return func(c *Case, st *Stats) *Failure {
		tr := Run(c, RunOpts{})
		v := Validate(c, tr, VOpts{})
		l := CaseLabels(c, v)
		rej := analyseRejections(c, tr, v, withInvokes)
		nt := false
		outside := false
		for _, r := range rej {
			l["rejected-"+r.cause] = true
			op := c.Ops[r.idx]
			if op.F == nil {
				l["rejected-raw-value"] = true
				outside = true
				continue
			}
			outside = true
			kind := KCtor
			if op.K == OpDecorate {
				kind = KDeco
			}
			if op.K == OpInvoke {
				continue
			}
			mf := NewMFn(op.F, op.O, kind, op.S)
			keys := map[MKey]bool{}
			for _, k := range mf.Keys() {
				keys[k] = true
			}
			touched := false
			for j := r.idx + 1; j < len(c.Ops); j++ {
				if keysTouched(c.Ops[j], keys) {
					touched = true
				}
			}
			if touched {
				l["continuation-touches-rejected-keys"] = true
				if r.cause != "invalid" {
					nt = true
				}
			}
			if op.O != nil && op.O.Export {
				l["rejected-export"] = true
			}
		}
		if id == "C14" {
			// non-trivial: input outside the valid sub-grammar that got past
			// the first type check (a func value or a non-nil option)
			nt = false
			for _, r := range rej {
				op := c.Ops[r.idx]
				if op.F != nil || op.O != nil {
					nt = true
				}
			}
			_ = outside
		}
		st.Record(c, nt, l)
		st.Count("rejected_ops", len(rej))
		// 1. nothing panics on its own (user bodies never panic here)
		for i, op := range c.Ops {
			if tr.Ops[i].Panicked {
				if panicsAreViolations || op.K != OpInvoke {
					return &Failure{CEscapedPanic, fmt.Sprintf("op %d (%s) panicked: %v", i, op.Short(), tr.Ops[i].PanicVal)}
				}
			}
		}
		// 2. the rejected function never runs
		if f := v.First(CUnregisteredRan, CUserCodeOutsideInvoke); f != nil {
			return failFrom(f)
		}
		// 2b. a value that is no function at all (or a nil function) is
		// rejected before anything is built for it
		for i, op := range c.Ops {
			if op.K != OpInvoke || !(op.F == nil || op.F.NilFn) {
				continue
			}
			o := tr.Ops[i]
			if o.Class == ClOK {
				return &Failure{"bad-invoke-accepted", fmt.Sprintf("op %d (%s): Invoke of a non-function / nil function returned nil", i, op.Short())}
			}
			if o.Ev1 != o.Ev0 {
				l["nil-fn-invoke"] = true
				return &Failure{"no-trace", fmt.Sprintf("op %d (%s): Invoke of a non-function / nil function was rejected (%v) but user code ran for it: %v", i, op.Short(), o.Err, tr.ExecutedSet(i))}
			}
		}
		// 3. differential: the history without the rejected call behaves the same
		n := 0
		for _, r := range rej {
			if n >= 4 {
				break
			}
			n++
			tb := Run(c, RunOpts{Skip: map[int]bool{r.idx: true}})
			st.Count("twin_runs", 1)
			for i := range c.Ops {
				if tb.Ops[i].Panicked && !tr.Ops[i].Panicked {
					return &Failure{"no-trace", fmt.Sprintf("without rejected op %d, op %d panics: %v", r.idx, i, tb.Ops[i].PanicVal)}
				}
			}
			// ops that are given the rejected call's own error
			// (Visualize(VisualizeError(err))) have no counterpart in the twin
			ignore := map[int]bool{r.idx: true}
			for j, o := range c.Ops {
				if o.K == OpVisualize && o.ErrOf != nil && *o.ErrOf == r.idx {
					ignore[j] = true
				}
			}
			if d := CompareTraces(tr, tb, CmpOpts{Class: true, Executed: true, Prov: true, Info: true, Text: true, IgnoreOps: ignore}); d != "" {
				return &Failure{"no-trace", fmt.Sprintf("rejected op %d (%s, cause %s: %v) left a trace: with vs without it: %s", r.idx, c.Ops[r.idx].Short(), r.cause, tr.Ops[r.idx].Err, d)}
			}
		}
		return nil
	}
}

func init() {
	register(&PropDef{
		ID:          "C06",
		Rule:        "histories containing registrations that dig rejects for every cause (bad signature/options/tags, duplicate key in the scope / in the root via Export / twice in one constructor, cycle in the target scope or only in a descendant, second decorator for a key, multi-key decorator conflicting on a later key), each followed by a continuation biased to touch the same keys; oracle: the same history without the rejected call, on a fresh container, is indistinguishable (verdict classes, executed sets, provenance, Info, String(), Visualize); non-trivial = the rejection cause is not a bad signature and the continuation registers or invokes one of the rejected call's keys; distinct by FNV-64 of the canonical IR",
		Assumptions: []string{"equality of observations is compared on verdict class, executed multiset, provenance tokens, Info strings, sorted String() lines and Visualize text; error message texts are not compared"},
		Gen: func(t *rapid.T, thorough bool) *Case {
			k := DefaultKnobs()
			k.WBadProvide, k.WBadDecorate, k.WCycleCloser, k.WDupDecorate = 3, 1, 5, 3
			k.WShadowCycle = 1
			k.PSide = 5
			k.WDecorate, k.WProvide, k.WInvoke, k.WScope = 5, 9, 8, 4
			k.WVisualize, k.WString = 1, 1
			k.PFresh = 65
			k.PFocus = 55
			k.PHole = 70
			k.PAvail = 85
			k.PExport = 25
			k.PInfo = 20
			k.Types = []string{"T0", "T1", "T2", "T5", "S0"}
			k.Ifaces = []string{"I0", "I2"}
			k.Names = []string{"a"}
			k.Groups = []string{"g"}
			k.MaxOps = 24
			k.PDefer = 20
			return GenCase(t, scale(k, thorough))
		},
		Check: diffRejectedCheck("C06", false, false),
	})

	register(&PropDef{
		ID:          "C14",
		Rule:        "histories mixing valid operations with a grammar of hostile inputs: non-function values, functions over hostile types (In/Out by value, by pointer, embedded at depth, *dig.In, In+Out together, error anywhere, variadics, named slices with methods, channels, maps, funcs, arrays), malformed and hostile struct tags, hostile option arguments (Name/Group strings, As with nil/non-pointer/pointer-to-struct/unimplemented interface, Export, LocationForPC(0|junk)), for Provide, Decorate and Invoke at any point, with Visualize and String in between; oracle: no call panics, each returns nil or an error, and a rejected call changes nothing (differential against the history without it); non-trivial = a rejected input that is a func value or carries a non-nil option (got past the first type check); distinct by FNV-64 of the canonical IR",
		Assumptions: []string{"\"any Go value\" is a grammar, not all of Go: cgo/unsafe-built values and method values are out; unexported fields come from a fixed static pool"},
		Gen: func(t *rapid.T, thorough bool) *Case {
			k := DefaultKnobs()
			k.WBadProvide, k.WBadDecorate, k.WBadInvoke, k.WCycleCloser, k.WDupDecorate = 9, 5, 4, 1, 1
			k.WDecorate, k.WProvide, k.WInvoke, k.WScope = 3, 7, 5, 3
			k.WVisualize, k.WString = 3, 3
			k.PFocus = 40
			k.PInfo = 25
			k.PCallback = 10
			k.PNilOptArg = 12
			k.PNamedSlice = 18
			k.PDecoOrphan = 10 // decorators of keys / groups that nothing provides (differential oracle only)
			k.PVisAfter = 20
			// user functions may return errors (never panic) so that failed
			// Invokes of every kind reach Visualize(VisualizeError)
			k.NoFaults, k.PFault, k.PPanic, k.PErr = false, 10, 0, 40
			k.PSide = 5
			k.MaxOps = 20
			return GenCase(t, scale(k, thorough))
		},
		Check: diffRejectedCheck("C14", true, true),
	})

	register(&PropDef{
		ID:   "C17",
		Rule: "any fault-free history (all features, scopes created before and after registrations) run on a DryRun(true) container and on a normal one; oracle: the dry container's execution log stays empty and every op has the same verdict class; non-trivial = the normal run has an Invoke executing >=2 functions from a child scope or through a decorator or group; distinct by FNV-64 of the canonical IR",
		Gen: func(t *rapid.T, thorough bool) *Case {
			k := DefaultKnobs()
			k.PHole = 60
			k.PAvail = 88
			k.PFresh = 80
			k.WCycleCloser = 2
			k.WDupDecorate = 1
			k.WBadProvide = 1
			k.PCycleKeep = 10
			k.WVisualize, k.WString = 1, 1
			// the comparison is purely differential, so keys that are
			// decorated without having a constructor are in the domain too
			k.PDecoOrphan = 20
			k.PCallback = 12 // a callback-bearing function must stay unexecuted too
			k.POpt = 30
			k.WDecorate = 5
			// DryRun decorators yield zero values (nil slices for groups):
			// group decorators that replace the group without reading it,
			// declared with another slice type than the consumers use
			k.PNamedSlice, k.PDecoGroup, k.PDecoSelf = 20, 40, 55
			k.PGroupRes, k.PGroupParam = 30, 30
			return GenCase(t, scale(k, thorough))
		},
		Check: func(c *Case, st *Stats) *Failure {
			tr := Run(c, RunOpts{})
			dry := true
			td := Run(c, RunOpts{ForceDry: &dry})
			v := Validate(c, tr, VOpts{})
			l := CaseLabels(c, v)
			ModelLabels(c, v, l)
			nt := false
			for _, ii := range v.Invokes {
				if len(ii.RanOK) >= 2 && (ii.Fn.View != 0 || l["deco-executed"] || l["group-request-ok"]) {
					nt = true
				}
			}
			st.Record(c, nt, l)
			for _, e := range td.RT.Log {
				if e.Kind == EvCB {
					continue // callbacks in a DryRun container are not covered by any property
				}
				return &Failure{"dry-executed", fmt.Sprintf("DryRun container executed user code: f%d during op %d (%s)", e.Fn, e.Op, c.Ops[e.Op].Short())}
			}
			for i, op := range c.Ops {
				a, b := tr.Ops[i], td.Ops[i]
				if a.Class == ClRisky || b.Class == ClRisky {
					continue
				}
				if a.Class != b.Class {
					return &Failure{"dry-verdict", fmt.Sprintf("op %d (%s): normal container %s (%v), DryRun container %s (%v)", i, op.Short(), a.Class, a.Err, b.Class, b.Err)}
				}
			}
			return nil
		},
	})
}

package harness

import (
	"fmt"
	"regexp"
	"sort"
	"strings"
)

// ---------------------------------------------------------------------------
// Trace comparison for the relational checks (C06, C14, C15, C16, C17).
// Only what Appendix A of DESIGN.md calls observable is compared: verdict
// classes, executed sets, argument provenance, Info strings, and the text of
// String()/Visualize — never error message texts.
// ---------------------------------------------------------------------------

type CmpOpts struct {
	Class      bool
	Executed   bool // multiset of fn:outcome per op
	Prov       bool // provenance of every argument of every execution
	Info       bool
	Text       bool // String() (sorted lines) and Visualize text
	ProvByKey  bool // compare provenance leaf-wise by key rather than by position (C15)
	IgnoreOps  map[int]bool
	OnlyOKProv bool // compare provenance only for ops that succeeded in both
	// MapFn maps function ids of trace B to those of trace A (identity if nil)
}

func execMultiset(tr *Trace, i int) string {
	var out []string
	for _, e := range tr.Events(i) {
		if e.Kind == EvExit {
			out = append(out, fmt.Sprintf("f%d:%d", e.Fn, e.Outcome))
		}
	}
	sort.Strings(out)
	return strings.Join(out, ",")
}

func provOfOp(tr *Trace, i int) string {
	var out []string
	for _, e := range tr.Events(i) {
		if e.Kind == EvEnter {
			var as []string
			for _, a := range e.Args {
				as = append(as, tr.RT.ProvString(a))
			}
			out = append(out, fmt.Sprintf("f%d#%d(%s)", e.Fn, e.Exec, strings.Join(as, "; ")))
		}
	}
	sort.Strings(out)
	return strings.Join(out, " | ")
}

// provByKeyOfOp renders, for every execution, the multiset of (key → provenance)
// of its leaves, independent of how the parameters were encoded.
func provByKeyOfOp(tr *Trace, c *Case, i int, fns map[int]*Fn) string {
	var out []string
	for _, e := range tr.Events(i) {
		if e.Kind != EvEnter {
			continue
		}
		f := fns[e.Fn]
		if f == nil {
			continue
		}
		var ls []string
		for _, l := range leavesOf(f.P) {
			p, ok := navigate(e.Args, l.Path)
			if !ok {
				continue
			}
			opt := ""
			if l.Opt {
				opt = "?"
			}
			if l.Soft {
				opt = "~"
			}
			ls = append(ls, fmt.Sprintf("%v%s=%s", l.Key, opt, tr.RT.ProvString(p)))
		}
		sort.Strings(ls)
		out = append(out, fmt.Sprintf("f%d#%d(%s)", e.Fn, e.Exec, strings.Join(ls, "; ")))
	}
	sort.Strings(out)
	return strings.Join(out, " | ")
}

var addrRE = regexp.MustCompile(`0x[0-9a-f]+`)

func sortedLines(s string) string {
	// interface-typed values print as raw addresses
	s = addrRE.ReplaceAllString(s, "ADDR")
	ls := strings.Split(s, "\n")
	sort.Strings(ls)
	return strings.Join(ls, "\n")
}

// CompareTraces returns a description of the first difference, or "".
func CompareTraces(a, b *Trace, co CmpOpts) string {
	c := a.Case
	var fns map[int]*Fn
	for i := range c.Ops {
		if co.IgnoreOps[i] {
			continue
		}
		oa, ob := a.Ops[i], b.Ops[i]
		if oa.Class == "skipped" || ob.Class == "skipped" || oa.Class == "" || ob.Class == "" {
			continue
		}
		op := c.Ops[i]
		if co.Class && oa.Class != ob.Class {
			return fmt.Sprintf("op %d (%s): class %s (%v) vs %s (%v)", i, op.Short(), oa.Class, oa.Err, ob.Class, ob.Err)
		}
		if co.Executed {
			if ea, eb := execMultiset(a, i), execMultiset(b, i); ea != eb {
				return fmt.Sprintf("op %d (%s): executed {%s} vs {%s}", i, op.Short(), ea, eb)
			}
		}
		if co.Prov && !(co.OnlyOKProv && (oa.Class != ClOK || ob.Class != ClOK)) {
			if co.ProvByKey {
				if fns == nil {
					fns = map[int]*Fn{}
				}
				// functions of each trace come from its own case
				fa, fb := map[int]*Fn{}, map[int]*Fn{}
				for _, o := range a.Case.Ops {
					if o.F != nil {
						fa[o.F.ID] = o.F
					}
				}
				for _, o := range b.Case.Ops {
					if o.F != nil {
						fb[o.F.ID] = o.F
					}
				}
				if pa, pb := provByKeyOfOp(a, a.Case, i, fa), provByKeyOfOp(b, b.Case, i, fb); pa != pb {
					return fmt.Sprintf("op %d (%s): wiring\n   %s\nvs %s", i, op.Short(), pa, pb)
				}
			} else if pa, pb := provOfOp(a, i), provOfOp(b, i); pa != pb {
				return fmt.Sprintf("op %d (%s): wiring\n   %s\nvs %s", i, op.Short(), pa, pb)
			}
		}
		if co.Info && oa.HasInfo && ob.HasInfo {
			ia := fmt.Sprint(oa.InfoTouched, oa.InfoInputs, oa.InfoOutputs)
			ib := fmt.Sprint(ob.InfoTouched, ob.InfoInputs, ob.InfoOutputs)
			if ia != ib {
				return fmt.Sprintf("op %d (%s): info %s vs %s", i, op.Short(), ia, ib)
			}
		}
		if co.Text && (op.K == OpString || op.K == OpVisualize) {
			ta, tb := oa.Text, ob.Text
			if op.K == OpString {
				ta, tb = sortedLines(ta), sortedLines(tb)
			}
			if ta != tb {
				return fmt.Sprintf("op %d (%s): text differs:\n%s\n--- vs ---\n%s", i, op.Short(), ta, tb)
			}
		}
	}
	return ""
}

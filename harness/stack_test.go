package harness

import "runtime/debug"

// A missed cycle overflows the stack; a lower limit makes the child die fast.
func debugSetMaxStack() { debug.SetMaxStack(64 << 20) }

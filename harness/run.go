package harness

import (
	"bytes"
	"errors"
	"fmt"
	"reflect"
	"runtime/debug"
	"sort"
	"strings"
	"time"

	"go.uber.org/dig"
)

// Verdict classes (Appendix A of DESIGN.md).
const (
	ClOK       = "ok"
	ClCycle    = "cycle"
	ClDig      = "dig"
	ClUser     = "user"
	ClPanicErr = "panicerr"
	ClPanicked = "panicked"
	ClOther    = "other"
)

type OpOut struct {
	Err      error
	Panicked bool
	PanicVal interface{}
	Stack    string
	Class    string
	Ev0, Ev1 int           // this op's events are Log[Ev0:Ev1]
	Wall     time.Duration // duration of the API call (monotonic clock; an upper bound for anything measured inside it)

	// Introspection
	HasInfo     bool
	InfoID      int
	InfoInputs  []string
	InfoOutputs []string
	InfoTouched bool

	InfoShared bool // the Info struct had been used by an earlier call
	InfoPreID  int

	Text string // Visualize / String output
	CanV bool   // CanVisualizeError(err) for failed ops
}

type Trace struct {
	Case *Case
	Ops  []OpOut
	RT   *RT
	// InfoChanged: the Inputs / Outputs slices read from an Info struct
	// after one call were changed by a later call (a caller that keeps what
	// it was given must not see it change)
	InfoChanged string
}

// keptInfo is what a caller keeps of a filled Info struct: the slices.
type keptInfo struct {
	op   int
	ins  []*dig.Input
	outs []*dig.Output
	a, b []string
}

func (rt *RT) keepInfo(op int, ins []*dig.Input, outs []*dig.Output) {
	a, b := renderIO(ins, outs)
	rt.kept = append(rt.kept, keptInfo{op, ins, outs, a, b})
}

// infoSlots holds the Info structs that several ops of a case share.
type infoSlots struct {
	p map[int]*dig.ProvideInfo
	d map[int]*dig.DecorateInfo
	i map[int]*dig.InvokeInfo
}

func renderIO(ins []*dig.Input, outs []*dig.Output) (a, b []string) {
	for _, in := range ins {
		a = append(a, in.String())
	}
	for _, o := range outs {
		b = append(b, o.String())
	}
	return
}

func infoSnap(id int, ins []*dig.Input, outs []*dig.Output) string {
	a, b := renderIO(ins, outs)
	return fmt.Sprint(id, ins == nil, outs == nil, a, b)
}

type scopeAPI interface {
	Provide(interface{}, ...dig.ProvideOption) error
	Decorate(interface{}, ...dig.DecorateOption) error
	Invoke(interface{}, ...dig.InvokeOption) error
	Scope(string, ...dig.ScopeOption) *dig.Scope
	String() string
}

type RunOpts struct {
	// StopAfter: run only ops [0, StopAfter) when > 0.
	StopAfter int
	// Skip: op indices that are not executed (their OpOut stays zero with
	// Class "skipped"); scope ops cannot be skipped.
	Skip map[int]bool
	// Order: if non-nil, execute ops in this order (indices into Case.Ops);
	// results are stored under the original index.
	Order []int
	// ForceDefer / ForceDry override the case config for twin runs.
	ForceDefer *bool
	ForceDry   *bool
	// BeforeOp is called before each executed op (in-flight markers).
	BeforeOp func(i int)
	// Risky decides what happens to an Invoke for which the model predicts
	// that run-time resolution re-enters a constructor under construction
	// (a missed cycle ends in a fatal stack overflow): "" = skip the op
	// (class "skipped-risky"), "run" = execute in-process anyway,
	// "child" = execute the case prefix in a child process first and only
	// run it in-process if the child survived.
	Risky string
}

// ClRisky marks an Invoke that was not executed in-process.
const ClRisky = "skipped-risky"

// ClCrash marks an Invoke whose child process died (fatal stack overflow).
const ClCrash = "crashed"

const sentinelInfoID = -4242

func classify(err error) string {
	if err == nil {
		return ClOK
	}
	if dig.IsCycleDetected(err) {
		return ClCycle
	}
	// a failure of user code is recognised anywhere in the chain (the error
	// may itself wrap a dig.Error from another container; what RootCause
	// makes of it is C13's business, not the verdict class's)
	var ue *UserErr
	if errors.As(err, &ue) {
		return ClUser
	}
	var hp *HErrPtr
	if errors.As(err, &hp) {
		return ClUser // the typed-nil error value of Fn.EK == 2
	}
	root := dig.RootCause(err)
	var pe dig.PanicError
	if errors.As(root, &pe) {
		return ClPanicErr
	}
	var de dig.Error
	if errors.As(root, &de) {
		return ClDig
	}
	return ClOther
}

// Run executes the case against a fresh dig container.
func Run(c *Case, ro RunOpts) *Trace {
	if c.Cfg.Shadow {
		// another container first: same functions' types, registrations
		// without their Name / Group / As options (so that anything keyed by
		// type alone across containers would go stale), nothing risky
		sc := c.Clone()
		sc.Cfg.Shadow = false
		for i := range sc.Ops {
			if o := sc.Ops[i].O; o != nil {
				o.Name, o.Group, o.As, o.AsRaw, o.AsSplit = "", "", nil, nil, false
			}
		}
		Run(sc, RunOpts{StopAfter: ro.StopAfter})
	}
	rt := newRT()
	tr := &Trace{Case: c, RT: rt, Ops: make([]OpOut, len(c.Ops))}
	cfg := c.Cfg
	if ro.ForceDefer != nil {
		cfg.Defer = *ro.ForceDefer
	}
	if ro.ForceDry != nil {
		cfg.Dry = *ro.ForceDry
	}
	var opts []dig.Option
	if cfg.Defer {
		opts = append(opts, dig.DeferAcyclicVerification())
	}
	if cfg.Recover {
		opts = append(opts, dig.RecoverFromPanics())
	}
	if cfg.Dry {
		opts = append(opts, dig.DryRun(true))
	} else if cfg.DryBoth {
		opts = append(opts, dig.DryRun(true), dig.DryRun(false))
	} else if cfg.DryFalse {
		opts = append(opts, dig.DryRun(false))
	}
	opts = append(opts, dig.VerifSeedRand(1))
	if !cfg.SysClock {
		clockOpt, advance := dig.VerifMockClock()
		opts = append(opts, clockOpt)
		rt.advance = advance
	}

	container := dig.New(opts...)
	scopes := []scopeAPI{container}
	// scopeOfOp[i] = scope index created by op i
	order := ro.Order
	if order == nil {
		order = make([]int, len(c.Ops))
		for i := range order {
			order[i] = i
		}
	}
	// Scope indices are assigned by position of the scope op in the
	// ORIGINAL op list so that permuted runs refer to the same scopes.
	scopeIdx := map[int]int{}
	n := 1
	for i, op := range c.Ops {
		if op.K == OpScope {
			scopeIdx[i] = n
			n++
		}
	}
	scopeByIdx := map[int]scopeAPI{0: container}
	_ = scopes
	getScope := func(s int) scopeAPI {
		if sc, ok := scopeByIdx[s]; ok {
			return sc
		}
		// reference to a scope that does not exist (hand-edited replay):
		// fall back to the root.
		return container
	}

	rt.scopeOf = func(i int) scopeAPI { return getScope(i) }
	rt.root = container
	for _, op := range c.Ops {
		if op.K == OpDecorate && op.F != nil {
			rt.decoIDs[op.F.ID] = true
		}
	}
	rm := NewModel() // registrations adopted so far (for the risk guard)
	writeInflight(c)
	for pos, i := range order {
		if ro.StopAfter > 0 && pos >= ro.StopAfter {
			break
		}
		op := c.Ops[i]
		out := &tr.Ops[i]
		if op.K == OpInvoke && op.F != nil && ro.Risky != "run" && !ro.Skip[i] {
			fn := NewMFn(op.F, nil, KInvoke, rm.scope(op.S))
			if rm.FindCycles(fn).CtorCycle {
				crashed := false
				if ro.Risky == "child" {
					crashed = childCrashes(c, ro, pos+1)
				}
				if ro.Risky != "child" || crashed {
					out.Class = ClRisky
					if crashed {
						out.Class = ClCrash
					}
					out.Ev0, out.Ev1 = len(rt.Log), len(rt.Log)
					continue
				}
			}
		}
		if ro.Skip[i] && op.K != OpScope {
			out.Class = "skipped"
			out.Ev0, out.Ev1 = len(rt.Log), len(rt.Log)
			continue
		}
		if ro.BeforeOp != nil {
			ro.BeforeOp(i)
		}
		rt.curOp = i
		out.Ev0 = len(rt.Log)
		opStart := time.Now() // only read to bound callback Runtimes under Cfg.SysClock
		func() {
			defer func() {
				if p := recover(); p != nil {
					out.Panicked = true
					out.PanicVal = p
					out.Stack = string(debug.Stack())
				}
			}()
			switch op.K {
			case OpScope:
				scopeByIdx[scopeIdx[i]] = getScope(op.S).Scope(op.Name)
			case OpProvide:
				out.Err = doProvide(rt, getScope(op.S), op, out)
			case OpDecorate:
				out.Err = doDecorate(rt, getScope(op.S), op, out)
			case OpInvoke:
				out.Err = doInvoke(rt, getScope(op.S), op, out)
			case OpVisualize:
				var vopts []dig.VisualizeOption
				if op.ErrOf != nil && *op.ErrOf >= 0 && *op.ErrOf < len(tr.Ops) && tr.Ops[*op.ErrOf].Err != nil {
					vopts = append(vopts, dig.VisualizeError(tr.Ops[*op.ErrOf].Err))
				}
				var buf bytes.Buffer
				out.Err = dig.Visualize(container, &buf, vopts...)
				out.Text = buf.String()
			case OpString:
				out.Text = getScope(op.S).String()
			}
		}()
		out.Wall = time.Since(opStart)
		out.Ev1 = len(rt.Log)
		if out.Err == nil && !out.Panicked && op.F != nil {
			switch op.K {
			case OpProvide:
				rm.AddCtor(NewMFn(op.F, op.O, KCtor, rm.scope(op.S)))
			case OpDecorate:
				rm.AddDeco(NewMFn(op.F, op.O, KDeco, rm.scope(op.S)))
			}
		}
		if op.K == OpScope {
			rm.AddScope(op.S, op.Name)
		}
		if out.Panicked {
			out.Class = ClPanicked
		} else {
			out.Class = classify(out.Err)
			if out.Err != nil {
				func() {
					defer func() { recover() }()
					out.CanV = dig.CanVisualizeError(out.Err)
				}()
			}
		}
	}
	for _, k := range rt.kept {
		a, b := renderIO(k.ins, k.outs)
		if fmt.Sprint(a, b) != fmt.Sprint(k.a, k.b) {
			tr.InfoChanged = fmt.Sprintf("the Inputs/Outputs slices obtained from op %d (%s) read %v %v then and %v %v at the end of the history", k.op, c.Ops[k.op].Short(), k.a, k.b, a, b)
			break
		}
	}
	return tr
}

func fnValue(rt *RT, op Op) interface{} {
	if op.F == nil {
		return rawValue(op.Raw)
	}
	return rt.Materialise(op.F)
}

func doProvide(rt *RT, sc scopeAPI, op Op, out *OpOut) error {
	fn := fnValue(rt, op)
	var popts []dig.ProvideOption
	var info *dig.ProvideInfo
	if o := op.O; o != nil {
		if o.Name != "" {
			popts = append(popts, dig.Name(o.Name))
		}
		if o.Group != "" {
			popts = append(popts, dig.Group(o.Group))
		}
		if len(o.As) > 0 || len(o.AsRaw) > 0 {
			var as []interface{}
			for _, a := range o.As {
				if o.AsNil {
					as = append(as, reflect.Zero(reflect.PtrTo(rtype(a))).Interface())
					continue
				}
				as = append(as, asPtr(a))
			}
			for _, a := range o.AsRaw {
				as = append(as, rawAs(a))
			}
			if o.AsSplit && len(as) >= 2 {
				popts = append(popts, dig.As(as[0]), dig.As(as[1:]...))
			} else {
				popts = append(popts, dig.As(as...))
			}
		}
		if o.Export {
			popts = append(popts, dig.Export(true))
		} else if o.ExportFalse {
			popts = append(popts, dig.Export(false))
		}
		if o.InfoNil {
			// before the real one: the later option wins
			popts = append(popts, dig.FillProvideInfo(nil))
		}
		if o.Info {
			info = &dig.ProvideInfo{ID: sentinelInfoID}
			if o.InfoSlot > 0 {
				if old, ok := rt.infos.p[o.InfoSlot]; ok {
					info, out.InfoShared = old, true
				} else {
					rt.infos.p[o.InfoSlot] = info
				}
			}
			popts = append(popts, dig.FillProvideInfo(info))
		}
		if o.CB && op.F != nil {
			id := op.F.ID
			cbPanic := o.CBPanic
			cbInvoke := o.CBInvoke
			popts = append(popts, dig.WithProviderCallback(func(ci dig.CallbackInfo) {
				rt.cbCalls[id]++
				boom := cbPanic && rt.cbCalls[id] == 1
				rt.Log = append(rt.Log, Event{Kind: EvCB, Op: rt.curOp, Fn: id, CBName: ci.Name, CBErr: ci.Error, CBRuntime: ci.Runtime, CBPanics: boom})
				if boom {
					panic(&CBPanicVal{id})
				}
				rt.cbNested(id, cbInvoke, ci.Error)
			}))
		}
		if o.CBNil && !o.CB {
			popts = append(popts, dig.WithProviderCallback(nil))
		}
		if o.AsEmpty {
			popts = append(popts, dig.As())
		}
		switch o.LocPC {
		case "zero":
			popts = append(popts, dig.LocationForPC(0))
		case "junk":
			popts = append(popts, dig.LocationForPC(12345))
		default:
			// "bank<k>": the code pointer of bank literal k (what a caller
			// wrapping functions with reflect.MakeFunc would pass)
			var k int
			if n, _ := fmt.Sscanf(o.LocPC, "bank%d", &k); n == 1 && k >= 0 && k < len(BankSpecs) {
				inst := bankMake(rt, &Fn{ID: -1000 - k, Bank: k + 1})
				popts = append(popts, dig.LocationForPC(reflect.ValueOf(inst).Pointer()))
			}
		}
	}
	pre := ""
	if info != nil {
		pre = infoSnap(int(info.ID), info.Inputs, info.Outputs)
		out.InfoPreID = int(info.ID)
	}
	err := sc.Provide(fn, popts...)
	if info != nil {
		out.HasInfo = true
		out.InfoID = int(info.ID)
		out.InfoTouched = infoSnap(int(info.ID), info.Inputs, info.Outputs) != pre
		out.InfoInputs, out.InfoOutputs = renderIO(info.Inputs, info.Outputs)
		rt.keepInfo(rt.curOp, info.Inputs, info.Outputs)
	}
	return err
}

func doDecorate(rt *RT, sc scopeAPI, op Op, out *OpOut) error {
	fn := fnValue(rt, op)
	var dopts []dig.DecorateOption
	var info *dig.DecorateInfo
	if o := op.O; o != nil {
		if o.InfoNil {
			dopts = append(dopts, dig.FillDecorateInfo(nil))
		}
		if o.Info {
			info = &dig.DecorateInfo{ID: sentinelInfoID}
			if o.InfoSlot > 0 {
				if old, ok := rt.infos.d[o.InfoSlot]; ok {
					info, out.InfoShared = old, true
				} else {
					rt.infos.d[o.InfoSlot] = info
				}
			}
			dopts = append(dopts, dig.FillDecorateInfo(info))
		}
		if o.CB && op.F != nil {
			id := op.F.ID
			cbPanic := o.CBPanic
			cbInvoke := o.CBInvoke
			dopts = append(dopts, dig.WithDecoratorCallback(func(ci dig.CallbackInfo) {
				rt.cbCalls[id]++
				boom := cbPanic && rt.cbCalls[id] == 1
				rt.Log = append(rt.Log, Event{Kind: EvCB, Op: rt.curOp, Fn: id, CBName: ci.Name, CBErr: ci.Error, CBRuntime: ci.Runtime, CBPanics: boom})
				if boom {
					panic(&CBPanicVal{id})
				}
				rt.cbNested(id, cbInvoke, ci.Error)
			}))
		}
	}
	pre := ""
	if info != nil {
		pre = infoSnap(int(info.ID), info.Inputs, info.Outputs)
		out.InfoPreID = int(info.ID)
	}
	if o := op.O; o != nil && o.CBNil && !o.CB {
		dopts = append(dopts, dig.WithDecoratorCallback(nil))
	}
	err := sc.Decorate(fn, dopts...)
	if info != nil {
		out.HasInfo = true
		out.InfoID = int(info.ID)
		out.InfoTouched = infoSnap(int(info.ID), info.Inputs, info.Outputs) != pre
		out.InfoInputs, out.InfoOutputs = renderIO(info.Inputs, info.Outputs)
		rt.keepInfo(rt.curOp, info.Inputs, info.Outputs)
	}
	return err
}

func doInvoke(rt *RT, sc scopeAPI, op Op, out *OpOut) error {
	fn := fnValue(rt, op)
	var iopts []dig.InvokeOption
	var info *dig.InvokeInfo
	if o := op.O; o != nil && o.InfoNil {
		iopts = append(iopts, dig.FillInvokeInfo(nil))
	}
	if o := op.O; o != nil && o.Info {
		info = &dig.InvokeInfo{}
		if o.InfoSlot > 0 {
			if old, ok := rt.infos.i[o.InfoSlot]; ok {
				info, out.InfoShared = old, true
			} else {
				rt.infos.i[o.InfoSlot] = info
			}
		}
		iopts = append(iopts, dig.FillInvokeInfo(info))
	}
	pre := ""
	if info != nil {
		pre = infoSnap(0, info.Inputs, nil)
	}
	err := sc.Invoke(fn, iopts...)
	if info != nil {
		out.HasInfo = true
		out.InfoTouched = infoSnap(0, info.Inputs, nil) != pre
		out.InfoInputs, _ = renderIO(info.Inputs, nil)
		rt.keepInfo(rt.curOp, info.Inputs, nil)
	}
	return err
}

// rawValue maps the bad-input grammar's non-function values.
func rawValue(raw string) interface{} {
	switch raw {
	case "nil", "":
		return nil
	case "int":
		return 42
	case "string":
		return "not a function"
	case "struct":
		return struct{ X int }{1}
	case "ptr":
		return &T0{}
	case "nilfunc":
		var f func() *T0
		return f
	case "nilfuncin":
		var f func(*T0)
		return f
	case "slice":
		return []int{1}
	case "map":
		return map[string]int{}
	case "chan":
		return make(chan int)
	case "nilptr":
		var p *T0
		return p
	case "in":
		return dig.In{}
	case "out":
		return dig.Out{}
	case "err":
		return errors.New("x")
	}
	return raw
}

func rawAs(a string) interface{} {
	switch a {
	case "nil":
		return nil
	case "int":
		return 7
	case "ptrstruct":
		return &S0{}
	case "ptrptr":
		return new(*T0)
	case "iface":
		var i I0 = &T0{}
		return i
	case "nilI0":
		return (*I0)(nil)
	case "ptrerr":
		return new(error)
	case "ptrany":
		return new(interface{})
	case "func":
		return func() {}
	}
	if isIface(a) {
		return asPtr(a)
	}
	if _, ok := pool[a]; ok {
		return reflectNew(a)
	}
	return a
}

func reflectNew(name string) interface{} { return asPtr(name) }

// ---------------------------------------------------------------------------
// Helpers over traces
// ---------------------------------------------------------------------------

// Events of op i.
func (tr *Trace) Events(i int) []Event { return tr.RT.Log[tr.Ops[i].Ev0:tr.Ops[i].Ev1] }

// ExecutedSet returns the sorted list of "fn#exec:outcome" for op i.
func (tr *Trace) ExecutedSet(i int) []string {
	var out []string
	for _, e := range tr.Events(i) {
		if e.Kind == EvExit {
			out = append(out, fmt.Sprintf("f%d#%d:%d", e.Fn, e.Exec, e.Outcome))
		}
	}
	sort.Strings(out)
	return out
}

// ProvString renders a provenance tree with tokens replaced by their
// descriptors so that two runs can be compared.
func (rt *RT) ProvString(p Prov) string {
	switch p.Kind {
	case "single":
		if p.Tok == 0 {
			return "zero"
		}
		d, ok := rt.Desc(p.Tok)
		if !ok {
			return fmt.Sprintf("badtok(%d)", p.Tok)
		}
		return fmt.Sprintf("f%d#%d/%s/%d", d.Fn, d.Exec, d.Slot, d.Elem)
	case "group":
		var es []string
		for _, t := range p.Elems {
			es = append(es, rt.ProvString(Prov{Kind: "single", Tok: t}))
		}
		sort.Strings(es)
		return "[" + strings.Join(es, ",") + "]"
	case "obj":
		var fs []string
		for _, f := range p.Fields {
			fs = append(fs, rt.ProvString(f))
		}
		return "{" + strings.Join(fs, ";") + "}"
	}
	return "foreign"
}

var _ = time.Second

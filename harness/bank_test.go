package harness

import (
	"testing"
)

// TestBankSanity: every bank entry can be materialised, registered (or
// invoked) on a fresh container, and distinct entries have distinct IDs.
func TestBankSanity(t *testing.T) {
	ids := map[int]int{}
	for i, s := range BankSpecs {
		c := &Case{}
		if s.Invoke {
			c.Ops = []Op{{K: OpInvoke, S: 0, F: BankFn(i, 1)}}
		} else if s.Kind == "deco" {
			c.Ops = []Op{{K: OpDecorate, S: 0, F: BankFn(i, 1), O: &Opts{Info: true}}}
		} else {
			c.Ops = []Op{{K: OpProvide, S: 0, F: BankFn(i, 1), O: &Opts{Info: true}}}
		}
		tr := Run(c, RunOpts{})
		o := tr.Ops[0]
		if o.Panicked {
			t.Fatalf("bank %d panicked: %v\n%s", i, o.PanicVal, o.Stack)
		}
		if !s.Invoke {
			if o.Class != ClOK {
				t.Fatalf("bank %d rejected: %v", i, o.Err)
			}
			if j, dup := ids[o.InfoID]; dup {
				t.Fatalf("bank %d and %d share ID %d", i, j, o.InfoID)
			}
			ids[o.InfoID] = i
		}
	}
}

package harness

import (
	"encoding/json"
	"os"
	"sort"
	"sync"
)

// ---------------------------------------------------------------------------
// Per-process statistics written at the end of a shard; merged by the driver
// into the evidence file.
// ---------------------------------------------------------------------------

type Stats struct {
	mu          sync.Mutex
	Prop        string            `json:"prop"`
	Evaluations int               `json:"evaluations"`
	NonTrivial  map[uint64]bool   `json:"-"`
	NTHashes    []uint64          `json:"nontrivial_hashes"`
	Classes     map[string]int    `json:"classes"`
	Counters    map[string]int    `json:"counters"`
	Samples     []json.RawMessage `json:"samples"`
	Failed      bool              `json:"failed"`
	FailMsg     string            `json:"fail_msg,omitempty"`
	sampleEvery int
}

func NewStats(prop string) *Stats {
	return &Stats{Prop: prop, NonTrivial: map[uint64]bool{}, Classes: map[string]int{}, Counters: map[string]int{}, sampleEvery: 1}
}

// Record registers one evaluated case.
func (s *Stats) Record(c *Case, nontrivial bool, labels map[string]bool) {
	s.mu.Lock()
	defer s.mu.Unlock()
	s.Evaluations++
	for l, on := range labels {
		if on {
			s.Classes[l]++
		}
	}
	if nontrivial {
		h := c.Hash()
		if !s.NonTrivial[h] {
			s.NonTrivial[h] = true
			// keep a few non-trivial samples spread over the run
			if len(s.Samples) < 4 && len(s.NonTrivial)%s.sampleEvery == 0 {
				s.Samples = append(s.Samples, json.RawMessage(c.JSON()))
				s.sampleEvery *= 7
			}
		}
	}
}

func (s *Stats) Count(name string, n int) {
	s.mu.Lock()
	defer s.mu.Unlock()
	s.Counters[name] += n
}

// RecordRaw registers an evaluation that is not an IR case (e.g. a digraph).
func (s *Stats) RecordRaw(hash uint64, nontrivial bool, labels map[string]bool, sample func() interface{}) {
	s.mu.Lock()
	defer s.mu.Unlock()
	s.Evaluations++
	for l, on := range labels {
		if on {
			s.Classes[l]++
		}
	}
	if nontrivial && !s.NonTrivial[hash] {
		s.NonTrivial[hash] = true
		if len(s.Samples) < 4 && len(s.NonTrivial)%s.sampleEvery == 0 {
			b, _ := json.Marshal(sample())
			s.Samples = append(s.Samples, b)
			s.sampleEvery *= 7
		}
	}
}

func (s *Stats) Write(path string) error {
	s.mu.Lock()
	defer s.mu.Unlock()
	s.NTHashes = s.NTHashes[:0]
	for h := range s.NonTrivial {
		s.NTHashes = append(s.NTHashes, h)
	}
	sort.Slice(s.NTHashes, func(i, j int) bool { return s.NTHashes[i] < s.NTHashes[j] })
	b, err := json.Marshal(s)
	if err != nil {
		return err
	}
	return os.WriteFile(path, b, 0o644)
}

// ---------------------------------------------------------------------------
// Static labels of a case
// ---------------------------------------------------------------------------

func CaseLabels(c *Case, v *VResult) map[string]bool {
	l := map[string]bool{}
	m := v.M
	maxDepth := 0
	for i := range m.Scopes {
		if d := m.Depth(i); d > maxDepth {
			maxDepth = d
		}
	}
	l["depth>=2"] = maxDepth >= 2
	l["depth>=3"] = maxDepth >= 3
	l["scopes>=3"] = len(m.Scopes) >= 3
	if c.Cfg.Defer {
		l["defer"] = true
	}
	if c.Cfg.Recover {
		l["recover"] = true
	}
	seenInvoke := false
	for _, op := range c.Ops {
		switch op.K {
		case OpInvoke:
			seenInvoke = true
		case OpProvide, OpDecorate:
			if seenInvoke {
				l["registration-after-invoke"] = true
			}
			if op.K == OpDecorate {
				l["has-decorator"] = true
			}
		case OpScope:
			if seenInvoke {
				l["scope-after-invoke"] = true
			}
		}
		if op.O != nil {
			if op.O.Export {
				l["has-export"] = true
			}
			if len(op.O.As) > 0 {
				l["has-as"] = true
			}
			if op.O.Name != "" {
				l["has-name-option"] = true
			}
			if op.O.Group != "" {
				l["has-group-option"] = true
			}
		}
		if op.F != nil {
			if len(op.F.Faults) > 0 {
				l["has-faults"] = true
			}
			if op.F.Var != "" {
				l["has-variadic"] = true
			}
			var walkP func(p Param, d int)
			walkP = func(p Param, d int) {
				if p.isObj() {
					l["has-in-object"] = true
					if d >= 1 {
						l["nested-in-object"] = true
					}
					for _, q := range p.Obj {
						walkP(q, d+1)
					}
					return
				}
				if p.Opt {
					l["has-optional"] = true
				}
				if p.Name != "" {
					l["has-named-param"] = true
				}
				if p.Group != "" {
					l["has-group-param"] = true
					if p.Soft {
						l["has-soft"] = true
					}
				}
			}
			for _, p := range op.F.P {
				walkP(p, 0)
			}
			var walkR func(r Result, d int)
			walkR = func(r Result, d int) {
				if r.isObj() {
					l["has-out-object"] = true
					if d >= 1 {
						l["nested-out-object"] = true
					}
					for _, q := range r.Obj {
						walkR(q, d+1)
					}
					return
				}
				if r.Flatten {
					l["has-flatten"] = true
				}
				if r.Group != "" {
					l["has-group-result"] = true
				}
				if r.Name != "" {
					l["has-named-result"] = true
				}
			}
			for _, r := range op.F.R {
				walkR(r, 0)
			}
		}
	}
	nOK, nFail := 0, 0
	for _, ii := range v.Invokes {
		if ii.Zones.Any() {
			l["zone"] = true
		}
		if ii.Zones.DecoCycle {
			l["zone-deco-cycle"] = true
		}
		if ii.Zones.DecoNoProvider {
			l["zone-deco-no-provider"] = true
		}
		if ii.Zones.CtorCycle {
			l["zone-ctor-cycle"] = true
		}
		if len(ii.RanOK) >= 3 {
			l["invoke-ran>=3"] = true
		}
		if len(ii.RanOK) >= 2 {
			l["invoke-ran>=2"] = true
		}
		if ii.Pred == ClOK {
			nOK++
		} else if ii.Pred != "" {
			nFail++
		}
	}
	l["invoke-ok"] = nOK > 0
	l["invoke-missing"] = nFail > 0
	return l
}

func countTrue(l map[string]bool, names ...string) int {
	n := 0
	for _, x := range names {
		if l[x] {
			n++
		}
	}
	return n
}

package harness

import (
	"encoding/json"
	"os"
	"sort"
	"sync"
)

// ---------------------------------------------------------------------------
// Per-process statistics written at the end of a shard; merged by the driver
// into the evidence file.
// ---------------------------------------------------------------------------

type Stats struct {
	mu          sync.Mutex
	Prop        string            `json:"prop"`
	Evaluations int               `json:"evaluations"`
	NonTrivial  map[uint64]bool   `json:"-"`
	NTHashes    []uint64          `json:"nontrivial_hashes"`
	Classes     map[string]int    `json:"classes"`
	Counters    map[string]int    `json:"counters"`
	Samples     []json.RawMessage `json:"samples"`
	Failed      bool              `json:"failed"`
	FailMsg     string            `json:"fail_msg,omitempty"`
	sampleEvery int
}

func NewStats(prop string) *Stats {
	return &Stats{Prop: prop, NonTrivial: map[uint64]bool{}, Classes: map[string]int{}, Counters: map[string]int{}, sampleEvery: 1}
}

// Record registers one evaluated case.
func (s *Stats) Record(c *Case, nontrivial bool, labels map[string]bool) {
	s.mu.Lock()
	defer s.mu.Unlock()
	s.Evaluations++
	for l, on := range labels {
		if on {
			s.Classes[l]++
		}
	}
	if nontrivial {
		h := c.Hash()
		if !s.NonTrivial[h] {
			s.NonTrivial[h] = true
			// keep a few non-trivial samples spread over the run
			if len(s.Samples) < 4 && len(s.NonTrivial)%s.sampleEvery == 0 {
				b, _ := json.Marshal(map[string]interface{}{"short": c.Short(), "ir": json.RawMessage(c.JSON())})
				s.Samples = append(s.Samples, b)
				s.sampleEvery *= 7
			}
		}
	}
}

func (s *Stats) Count(name string, n int) {
	s.mu.Lock()
	defer s.mu.Unlock()
	s.Counters[name] += n
}

// RecordRaw registers an evaluation that is not an IR case (e.g. a digraph).
func (s *Stats) RecordRaw(hash uint64, nontrivial bool, labels map[string]bool, sample func() interface{}) {
	s.mu.Lock()
	defer s.mu.Unlock()
	s.Evaluations++
	for l, on := range labels {
		if on {
			s.Classes[l]++
		}
	}
	if nontrivial && !s.NonTrivial[hash] {
		s.NonTrivial[hash] = true
		if len(s.Samples) < 4 && len(s.NonTrivial)%s.sampleEvery == 0 {
			b, _ := json.Marshal(sample())
			s.Samples = append(s.Samples, b)
			s.sampleEvery *= 7
		}
	}
}

func (s *Stats) Write(path string) error {
	s.mu.Lock()
	defer s.mu.Unlock()
	s.NTHashes = s.NTHashes[:0]
	for h := range s.NonTrivial {
		s.NTHashes = append(s.NTHashes, h)
	}
	sort.Slice(s.NTHashes, func(i, j int) bool { return s.NTHashes[i] < s.NTHashes[j] })
	b, err := json.Marshal(s)
	if err != nil {
		return err
	}
	return os.WriteFile(path, b, 0o644)
}

// ---------------------------------------------------------------------------
// Static labels of a case
// ---------------------------------------------------------------------------

func CaseLabels(c *Case, v *VResult) map[string]bool {
	l := map[string]bool{}
	m := v.M
	maxDepth := 0
	for i := range m.Scopes {
		if d := m.Depth(i); d > maxDepth {
			maxDepth = d
		}
	}
	l["depth>=2"] = maxDepth >= 2
	l["depth>=3"] = maxDepth >= 3
	l["scopes>=3"] = len(m.Scopes) >= 3
	if c.Cfg.Defer {
		l["defer"] = true
	}
	if c.Cfg.Recover {
		l["recover"] = true
	}
	if c.Cfg.Shadow {
		l["after-shadow-container"] = true
	}
	seenInvoke := false
	for _, op := range c.Ops {
		switch op.K {
		case OpInvoke:
			seenInvoke = true
		case OpProvide, OpDecorate:
			if seenInvoke {
				l["registration-after-invoke"] = true
			}
			if op.K == OpDecorate {
				l["has-decorator"] = true
			}
		case OpScope:
			if seenInvoke {
				l["scope-after-invoke"] = true
			}
		}
		if op.O != nil {
			if op.O.Export {
				l["has-export"] = true
			}
			if len(op.O.As) > 0 {
				l["has-as"] = true
			}
			if op.O.Name != "" {
				l["has-name-option"] = true
			}
			if op.O.Group != "" {
				l["has-group-option"] = true
			}
		}
		if op.F != nil {
			if len(op.F.Faults) > 0 {
				l["has-faults"] = true
			}
			if op.F.SideFn != nil {
				l["body-registers-a-usable-key"] = true
			}
			if op.F.Side != "" {
				l["body-calls-container("+op.F.Side+")"] = true
			}
			if op.F.Var != "" {
				l["has-variadic"] = true
			}
			var walkP func(p Param, d int)
			walkP = func(p Param, d int) {
				if p.Decl != "" {
					l["has-declared-ignore-unexported-object"] = true
				}
				if p.isObj() {
					l["has-in-object"] = true
					if d >= 1 {
						l["nested-in-object"] = true
					}
					for _, q := range p.Obj {
						walkP(q, d+1)
					}
					return
				}
				if p.Opt {
					l["has-optional"] = true
				}
				if p.Name != "" {
					l["has-named-param"] = true
				}
				if p.SlT != "" {
					l["has-named-slice-type"] = true
				}
				if p.Group != "" {
					l["has-group-param"] = true
					if p.Soft {
						l["has-soft"] = true
					}
				}
			}
			for _, p := range op.F.P {
				walkP(p, 0)
			}
			var walkR func(r Result, d int)
			walkR = func(r Result, d int) {
				if r.isObj() {
					l["has-out-object"] = true
					if d >= 1 {
						l["nested-out-object"] = true
					}
					for _, q := range r.Obj {
						walkR(q, d+1)
					}
					return
				}
				if r.Flatten {
					l["has-flatten"] = true
				}
				if r.Zero {
					l["has-zero-valued-result"] = true
				}
				if r.Group != "" {
					l["has-group-result"] = true
				}
				if r.Name != "" {
					l["has-named-result"] = true
				}
			}
			for _, r := range op.F.R {
				walkR(r, 0)
			}
		}
	}
	nOK, nFail := 0, 0
	for _, ii := range v.Invokes {
		if ii.Zones.Any() {
			l["zone"] = true
		}
		if ii.Zones.DecoCycle {
			l["zone-deco-cycle"] = true
		}
		if ii.Zones.DecoNoProvider {
			l["zone-deco-no-provider"] = true
		}
		if ii.Zones.CtorCycle {
			l["zone-ctor-cycle"] = true
		}
		if ii.Zones.GraphCyclic {
			l["zone-graph-cyclic"] = true
		}
		if ii.Zones.AsOwn {
			l["zone-as-own-type"] = true
		}
		if len(ii.RanOK) >= 3 {
			l["invoke-ran>=3"] = true
		}
		if len(ii.RanOK) >= 2 {
			l["invoke-ran>=2"] = true
		}
		if ii.Pred == ClOK {
			nOK++
		} else if ii.Pred != "" {
			nFail++
		}
	}
	l["invoke-ok"] = nOK > 0
	l["invoke-missing"] = nFail > 0
	return l
}

func countTrue(l map[string]bool, names ...string) int {
	n := 0
	for _, x := range names {
		if l[x] {
			n++
		}
	}
	return n
}

// ModelLabels derives labels that need the final registration model.
func ModelLabels(c *Case, v *VResult, l map[string]bool) {
	m := v.M
	for k, on := range v.Labels {
		if on {
			l[k] = true
		}
	}
	for _, op := range c.Ops {
		if op.F != nil && (op.F.EK != 0 || op.F.PK != 0) && len(op.F.Faults) > 0 {
			l["has-unusual-fault-value"] = true
		}
	}
	for _, d := range v.DupPred {
		if d != "" {
			l["dup-attempt"] = true
		}
	}
	for _, f := range m.Fns {
		if f.Kind == KDeco && f.OkExec >= 0 {
			l["deco-executed"] = true
		}
	}
	{
		soft, hard := map[MKey]bool{}, map[MKey]bool{}
		for _, op := range c.Ops {
			if op.F == nil {
				continue
			}
			for _, lf := range leavesOf(op.F.P) {
				if lf.IsGroup && lf.Soft {
					soft[lf.Key] = true
				} else if lf.IsGroup {
					hard[lf.Key] = true
				}
			}
		}
		for k := range soft {
			if hard[k] {
				l["soft-and-hard"] = true
			}
		}
	}
	// same key provided at two levels of one root path
	type home struct {
		k MKey
		s int
	}
	provHomes := map[MKey][]int{}
	feederHomes := map[MKey]map[int]int{}
	for _, sc := range m.Scopes {
		for _, f := range sc.Ctors {
			seen := map[MKey]bool{}
			for _, k := range f.Keys() {
				if seen[k] {
					continue
				}
				seen[k] = true
				if k.Group != "" {
					if feederHomes[k] == nil {
						feederHomes[k] = map[int]int{}
					}
					feederHomes[k][f.Home]++
				} else {
					provHomes[k] = append(provHomes[k], f.Home)
				}
			}
		}
	}
	for _, hs := range provHomes {
		for i := range hs {
			for j := range hs {
				if i != j && hs[i] != hs[j] && m.IsAnc(hs[i], hs[j]) {
					l["same-key-2-levels"] = true
				}
			}
		}
		if len(hs) >= 2 {
			l["same-key-2-scopes"] = true
		}
	}
	for _, hm := range feederHomes {
		n := 0
		for _, c := range hm {
			n += c
		}
		if n >= 3 && len(hm) >= 2 {
			l["feeders>=3-in-2-scopes"] = true
		}
		if n >= 3 {
			l["feeders>=3"] = true
		}
	}
	// decorator shapes
	decoScopes := map[MKey][]int{}
	for _, sc := range m.Scopes {
		for _, d := range sc.DecoL {
			ks := d.Keys()
			if len(ks) >= 2 {
				l["deco-multi"] = true
			}
			for _, k := range ks {
				if k.Group != "" {
					l["deco-group"] = true
				}
				decoScopes[k] = append(decoScopes[k], sc.Idx)
			}
		}
	}
	for _, ss := range decoScopes {
		for i := range ss {
			for j := range ss {
				if i != j && m.IsAnc(ss[i], ss[j]) {
					l["deco-chain"] = true
				}
			}
		}
	}
	seenInvoke := false
	groupRequested := map[MKey]int{} // 1 requested, 2 feeder added after a request
	for _, op := range c.Ops {
		if op.F == nil {
			continue
		}
		switch op.K {
		case OpInvoke:
			seenInvoke = true
			for _, lf := range leavesOf(op.F.P) {
				if lf.IsGroup && !lf.Soft {
					if groupRequested[lf.Key] == 2 {
						l["feeder-between-requests"] = true
					}
					if groupRequested[lf.Key] == 0 {
						groupRequested[lf.Key] = 1
					}
				}
			}
		case OpDecorate:
			if seenInvoke && m.Fns[op.F.ID] != nil {
				l["decorate-after-invoke"] = true
			}
		case OpProvide:
			if f := m.Fns[op.F.ID]; f != nil {
				for _, k := range f.Keys() {
					if k.Group != "" && groupRequested[k] == 1 {
						groupRequested[k] = 2
					}
				}
			}
		}
		// soft shapes
		softKeys := map[MKey]bool{}
		hardKeys := map[MKey]bool{}
		for _, lf := range leavesOf(op.F.P) {
			if lf.IsGroup && lf.Soft {
				softKeys[lf.Key] = true
			} else if lf.IsGroup {
				hardKeys[lf.Key] = true
			}
		}
		for k := range softKeys {
			l["soft-consumer"] = true
			if hardKeys[k] {
				l["soft-and-hard-same-fn"] = true
			}
		}
	}
	// a soft leaf that precedes, in its object, a leaf whose producer feeds the same group
	for _, ii := range v.Invokes {
		fns := []*MFn{ii.Fn}
		for _, id := range ii.Ran {
			if g := m.Fns[id]; g != nil {
				fns = append(fns, g)
			}
		}
		for _, g := range fns {
			for i, a := range g.Leaves {
				if !(a.IsGroup && a.Soft) {
					continue
				}
				for j, b := range g.Leaves {
					if j <= i || b.ObjPath != a.ObjPath || b.IsGroup {
						continue
					}
					if p := m.ExpectSingle(g, b.Key); p != nil && p.Fn.Kind == KCtor && p.Fn.SlotFor(a.Key) >= 0 {
						l["soft-before-feeding-sibling"] = true
					}
				}
			}
		}
	}
	for _, d := range v.Demands {
		paths := 0
		for k := range d.Kinds {
			if k == "single" || k == "group" || k == "deco-input" {
				paths++
			}
		}
		scopes := 0
		for k := range d.Kinds {
			if len(k) > 5 && k[:5] == "scope" {
				scopes++
			}
		}
		if d.N >= 3 && (paths >= 2 || scopes >= 2) {
			l["demanded>=3-via-2-paths"] = true
		}
	}
	for _, ii := range v.Invokes {
		if ii.Bystanders >= 3 && ii.BystanderScopes >= 2 && len(ii.RanOK) >= 2 {
			l["bystanders>=3-in-2-scopes"] = true
		}
	}
}

package harness

import (
	"encoding/json"
	"fmt"
	"hash/fnv"
	"os"
	"strings"
)

// ---------------------------------------------------------------------------
// History IR. A Case is a pure data description of a container configuration
// and a sequence of API calls with the user functions they pass. It is what
// generators produce, what rapid shrinks (through the draws that built it),
// what replay files contain and what evidence samples show.
// ---------------------------------------------------------------------------

type Config struct {
	Defer   bool `json:"defer,omitempty"`
	Recover bool `json:"recover,omitempty"`
	Dry     bool `json:"dry,omitempty"`
	// Shadow: before this history runs, a variant of it (options stripped
	// from every registration) is run on another container in the same
	// process: containers share nothing, so this must change nothing
	Shadow bool `json:"shadow,omitempty"`
	// SysClock: the container keeps dig's default (system) clock; callback
	// Runtimes are then only bounded (0 <= Runtime <= duration of the API
	// call), not predicted
	SysClock bool `json:"sysclock,omitempty"`
	// DryFalse: dig.DryRun(false) is passed explicitly (same as no option)
	DryFalse bool `json:"dryfalse,omitempty"`
	// DryBoth: DryRun(true) followed by DryRun(false): the later option wins
	DryBoth bool `json:"dryboth,omitempty"`
}

type Case struct {
	Prop string `json:"prop,omitempty"` // property id this case was generated / failed for
	Note string `json:"note,omitempty"`
	Cfg  Config `json:"cfg"`
	Ops  []Op   `json:"ops"`
	// Variant carries the parameters of a relational check (C06, C15, C16)
	Variant *Variant `json:"variant,omitempty"`
	// Graph: a bare digraph for the cycle-search sub-check of C05
	Graph *GraphCase `json:"graph,omitempty"`
}

type Variant struct {
	Drop  int   `json:"drop,omitempty"`  // C06/C14: index of the op removed in the twin run
	Perm  []int `json:"perm,omitempty"`  // C16: new order of ops (indices into Ops)
	Defer bool  `json:"defer,omitempty"` // C16: twin run toggles DeferAcyclicVerification
	// C16: no permutation (the history has failing functions, whose effects
	// depend on the order of execution); only DeferAcyclicVerification is toggled
	NoPerm bool `json:"noperm,omitempty"`
	// C15: the alternative encodings keep the order of all parameter leaves
	// (runs of parameters wrapped into objects): executions are compared
	// also on histories with failing functions
	Ordered bool    `json:"ordered,omitempty"`
	Hoist   bool    `json:"hoist,omitempty"`  // C16: twin run creates every scope as early as possible (right after its parent)
	Encode  []EncFn `json:"encode,omitempty"` // (unused)
	// C15: alternative, equivalent encodings of some operations' functions
	// and options, by op index
	Alt map[int]*AltOp `json:"alt,omitempty"`
}

// AltOp is the re-encoded form of one operation (C15).
type AltOp struct {
	F *Fn   `json:"f"`
	O *Opts `json:"o,omitempty"`
}

// EncFn describes how one function is re-encoded in C15's twin run.
type EncFn struct {
	ID       int   `json:"id"`
	InGroups []int `json:"in,omitempty"`  // for each positional param, the In-object index it is folded into (-1 stays positional)
	InNest   []int `json:"inn,omitempty"` // nesting depth for each In object
	OutFold  bool  `json:"out,omitempty"` // fold results into an Out object
	OutNest  int   `json:"outn,omitempty"`
	Variadic bool  `json:"var,omitempty"`
	TagOpts  bool  `json:"tag,omitempty"` // move Name/Group option to tags
}

const (
	OpScope     = "scope"
	OpProvide   = "provide"
	OpDecorate  = "decorate"
	OpInvoke    = "invoke"
	OpVisualize = "visualize"
	OpString    = "string"
)

type Op struct {
	K    string `json:"k"`
	S    int    `json:"s"`              // target scope index (0 = root); for OpScope: parent
	Name string `json:"name,omitempty"` // OpScope: name of the new scope
	F    *Fn    `json:"f,omitempty"`
	O    *Opts  `json:"o,omitempty"`
	// OpVisualize: index of an earlier op whose error is passed through
	// VisualizeError (-1 / absent: none).
	ErrOf *int `json:"errof,omitempty"`
	// Raw: for the bad-input grammar, a non-function value is passed
	Raw string `json:"raw,omitempty"`
}

// Fault outcomes per execution.
const (
	FaultOK    = 0
	FaultError = 1
	FaultPanic = 2
)

type Fn struct {
	ID  int      `json:"id"`
	P   []Param  `json:"p,omitempty"`
	R   []Result `json:"r,omitempty"`
	Err bool     `json:"err,omitempty"` // has an error result
	// Err2: a second error result, always the last result; a failing
	// execution returns two distinct non-nil errors (either is "the
	// function's own error"), a successful one two nils
	Err2  bool   `json:"err2,omitempty"`
	ErrT  string `json:"errt,omitempty"`  // "iface": the error result is declared as an interface type that embeds error
	ErrAt int    `json:"errat,omitempty"` // 0: error is the last result; k>0: error sits before result k-1 (clipped)
	Var   string `json:"var,omitempty"`   // variadic element type
	// NilFn: the value passed is the nil value of the function type (a typed
	// nil func): invalid input for Provide / Decorate / Invoke
	NilFn  bool  `json:"nilfn,omitempty"`
	Faults []int `json:"faults,omitempty"` // per execution; beyond the list: ok
	// EK / PK: what a failing execution fails with. EK 0: a plain sentinel
	// error, 1: a sentinel error that wraps a dig.Error obtained elsewhere
	// (as user code that uses a second container would return), 2: a typed nil
	// pointer in the error interface (not nil: still a failure). PK 0: a
	// non-error sentinel value, 1: an error value, 2: an error value wrapping
	// a dig missing-type error, 3: an error value wrapping a dig cycle error,
	// 4: a string, 5: an error value wrapping the error of another container
	// whose constructor panicked (a foreign PanicError).
	EK   int `json:"ek,omitempty"`
	PK   int `json:"pk,omitempty"`
	Bank int `json:"bank,omitempty"` // >0: declared function bank entry (Bank-1)
	Dur  int `json:"dur,omitempty"`  // mock clock advance inside the body (ns)
	// Reenter: during its first execution the body calls back into the
	// container: Invoke on scope S of a function with parameters P, ignoring
	// the returned error (re-entrant use from inside user code, C02).
	Reenter *Reenter `json:"reenter,omitempty"`
	// Side: a call into the container made from inside the body on every
	// execution, on scope SideS, that must not disturb the resolution in
	// progress: "string", "visualize", "scope" (creates a child scope),
	// "provide" / "decorate" (of a key type no generated function uses).
	Side  string `json:"side,omitempty"`
	SideS int    `json:"sides,omitempty"`
	// SideFn (Side == "provide-key"): during its first execution the body
	// provides this constructor (no parameters, one fresh single key that no
	// registered function consumes at that time) to scope SideS; later
	// operations may consume the key.
	SideFn *Fn `json:"sidefn,omitempty"`
}

type Reenter struct {
	S int     `json:"s"`
	P []Param `json:"p"`
}

type Param struct {
	T     string `json:"t,omitempty"`
	Name  string `json:"name,omitempty"`
	Opt   bool   `json:"opt,omitempty"`
	Group string `json:"group,omitempty"`
	Soft  bool   `json:"soft,omitempty"`
	// SlT: a group parameter declared with a named slice type (variant "A"
	// or "B", types_slices.go) instead of []T
	SlT   string  `json:"slt,omitempty"`
	Obj   []Param `json:"obj,omitempty"`
	IsObj bool    `json:"isobj,omitempty"` // object with possibly zero fields
	// ET: the field carries explicit empty tags (name:"" and / or group:"")
	// for whatever it does not declare: the same as no tag
	ET bool `json:"et,omitempty"`
	// EmbedAt: position of the embedded dig.In among the fields of a
	// generated parameter object (0 = first, the usual place)
	EmbedAt int `json:"embedat,omitempty"`
	// Decl: the object is a declared struct type (ignore-unexported:"true"
	// with unexported fields in between); Obj lists its exported fields.
	Decl  string `json:"decl,omitempty"`
	Tag   string `json:"tag,omitempty"`   // raw struct tag override (bad-input grammar)
	Host  string `json:"host,omitempty"`  // hostile type name (bad-input grammar)
	Unexp bool   `json:"unexp,omitempty"` // (bad-input grammar) not representable: ignored
}

type Result struct {
	T       string `json:"t,omitempty"`
	Impl    string `json:"impl,omitempty"` // dynamic type when T is an interface
	Name    string `json:"name,omitempty"`
	Group   string `json:"group,omitempty"`
	Flatten bool   `json:"flatten,omitempty"`
	N       int    `json:"n,omitempty"`   // number of elements for slice-typed results (flatten / decorated groups)
	Nil     bool   `json:"nil,omitempty"` // slice result is nil rather than empty when N == 0
	// Zero: the function returns the zero value (nil pointer, nil interface,
	// S0{}) for this result: a provided value that happens to be zero
	Zero    bool     `json:"zero,omitempty"`
	Slice   bool     `json:"sl,omitempty"`  // result type is []T (group decorators, flatten)
	SlT     string   `json:"slt,omitempty"` // slice-typed result declared with a named slice type (variant "A" / "B")
	Rep     bool     `json:"rep,omitempty"` // slice-typed result: every element is the same value (equal members are still N members)
	Obj     []Result `json:"obj,omitempty"`
	EmbedAt int      `json:"embedat,omitempty"` // position of the embedded dig.Out among the fields (0 = first)
	IsObj   bool     `json:"isobj,omitempty"`
	Tag     string   `json:"tag,omitempty"`
	Host    string   `json:"host,omitempty"`
	ET      bool     `json:"et,omitempty"` // explicit empty name:"" / group:"" tags for what the field does not declare
}

type Opts struct {
	Name   string   `json:"name,omitempty"`
	Group  string   `json:"group,omitempty"` // raw group option string, e.g. "g" or "g,flatten"
	As     []string `json:"as,omitempty"`
	AsRaw  []string `json:"asraw,omitempty"` // bad-input grammar: "nil","int","ptrstruct","T0"...
	Export bool     `json:"export,omitempty"`
	Info   bool     `json:"info,omitempty"`
	// InfoSlot > 0: the Info struct is shared with every other op of the same
	// kind (Provide / Decorate / Invoke) that names the same slot, i.e. one
	// struct is reused for several calls; 0: a fresh pre-filled struct.
	InfoSlot int  `json:"infoslot,omitempty"`
	CB       bool `json:"cb,omitempty"`
	// AsSplit: the As list is given as two dig.As options (they accumulate)
	AsSplit bool `json:"assplit,omitempty"`
	// AsNil: the As arguments are typed nil pointers ((*I)(nil)) instead of
	// new(I): equally valid
	AsNil bool `json:"asnil,omitempty"`
	// ExportFalse: dig.Export(false) is passed explicitly (same as no option)
	ExportFalse bool `json:"exportfalse,omitempty"`
	// CBPanic: the callback panics the first time it is called (callbacks are
	// user code too). What Invoke then returns is not covered by a property;
	// the state left behind is (C02: what completed stays completed).
	CBPanic bool `json:"cbpanic,omitempty"`
	// CBInvoke: the first time the callback is called with a nil Error it
	// calls Invoke on scope S for a function with parameters P (a consumer of
	// the function's own keys): the function has completed by then, so the
	// consumer must get what any later consumer gets
	CBInvoke *Reenter `json:"cbinvoke,omitempty"`
	// nil / empty arguments to option constructors (accepted no-ops):
	// FillProvideInfo(nil) etc., WithProviderCallback(nil) etc., dig.As()
	InfoNil bool   `json:"infonil,omitempty"`
	CBNil   bool   `json:"cbnil,omitempty"`
	AsEmpty bool   `json:"asempty,omitempty"`
	LocPC   string `json:"locpc,omitempty"` // "", "zero", "self", "junk"
}

func (p Param) isObj() bool  { return p.IsObj || len(p.Obj) > 0 }
func (r Result) isObj() bool { return r.IsObj || len(r.Obj) > 0 }

func (c *Case) JSON() []byte {
	b, err := json.Marshal(c)
	if err != nil {
		panic(err)
	}
	return b
}

func (c *Case) Pretty() []byte {
	b, err := json.MarshalIndent(c, "", " ")
	if err != nil {
		panic(err)
	}
	return b
}

func (c *Case) Hash() uint64 {
	h := fnv.New64a()
	cc := *c
	cc.Prop, cc.Note = "", ""
	h.Write(cc.JSON())
	return h.Sum64()
}

func (c *Case) Clone() *Case {
	var out Case
	if err := json.Unmarshal(c.JSON(), &out); err != nil {
		panic(err)
	}
	return &out
}

func LoadCase(path string) (*Case, error) {
	b, err := os.ReadFile(path)
	if err != nil {
		return nil, err
	}
	var c Case
	if err := json.Unmarshal(b, &c); err != nil {
		return nil, err
	}
	return &c, nil
}

// Short is a compact one-line rendering for evidence samples and messages.
func (c *Case) Short() string {
	var sb strings.Builder
	if c.Graph != nil {
		return fmt.Sprintf("digraph n=%d edges=%v", c.Graph.N, c.Graph.Edges)
	}
	fmt.Fprintf(&sb, "cfg{")
	if c.Cfg.Defer {
		sb.WriteString("defer ")
	}
	if c.Cfg.Recover {
		sb.WriteString("recover ")
	}
	if c.Cfg.Dry {
		sb.WriteString("dry ")
	}
	if c.Cfg.DryFalse {
		sb.WriteString("DryRun(false) ")
	}
	if c.Cfg.DryBoth {
		sb.WriteString("DryRun(true),DryRun(false) ")
	}
	if c.Cfg.Shadow {
		sb.WriteString("after-shadow-container ")
	}
	if c.Cfg.SysClock {
		sb.WriteString("system-clock ")
	}
	sb.WriteString("}")
	for i, op := range c.Ops {
		fmt.Fprintf(&sb, " %d:", i)
		sb.WriteString(op.Short())
	}
	return sb.String()
}

func (op Op) Short() string {
	switch op.K {
	case OpScope:
		return fmt.Sprintf("scope(parent=%d,%q)", op.S, op.Name)
	case OpProvide, OpDecorate, OpInvoke:
		s := fmt.Sprintf("%s@%d ", op.K, op.S)
		if op.F != nil {
			s += op.F.Short()
		} else {
			s += "raw:" + op.Raw
		}
		if op.O != nil {
			s += op.O.Short()
		}
		return s
	case OpVisualize:
		if op.ErrOf != nil {
			return fmt.Sprintf("visualize(errof=%d)", *op.ErrOf)
		}
		return "visualize"
	case OpString:
		return fmt.Sprintf("string@%d", op.S)
	}
	return op.K
}

func (o *Opts) Short() string {
	var parts []string
	if o.Name != "" {
		parts = append(parts, fmt.Sprintf("Name(%q)", o.Name))
	}
	if o.Group != "" {
		parts = append(parts, fmt.Sprintf("Group(%q)", o.Group))
	}
	if len(o.As) > 0 {
		if o.AsSplit && len(o.As) >= 2 {
			parts = append(parts, "As("+o.As[0]+") As("+strings.Join(o.As[1:], ",")+")")
		} else {
			parts = append(parts, "As("+strings.Join(o.As, ",")+")")
		}
		if o.AsNil {
			parts = append(parts, "(typed nil As pointers)")
		}
	}
	if len(o.AsRaw) > 0 {
		parts = append(parts, "AsRaw("+strings.Join(o.AsRaw, ",")+")")
	}
	if o.Export {
		parts = append(parts, "Export")
	}
	if o.ExportFalse {
		parts = append(parts, "Export(false)")
	}
	if o.Info {
		if o.InfoSlot > 0 {
			parts = append(parts, fmt.Sprintf("Info#%d", o.InfoSlot))
		} else {
			parts = append(parts, "Info")
		}
	}
	if o.CB {
		if o.CBPanic {
			parts = append(parts, "Callback!panics")
		} else {
			parts = append(parts, "Callback")
		}
		if o.CBInvoke != nil {
			var ps []string
			for _, p := range o.CBInvoke.P {
				ps = append(ps, p.Short())
			}
			parts = append(parts, fmt.Sprintf("{callback: invoke@%d(%s)}", o.CBInvoke.S, strings.Join(ps, ",")))
		}
	}
	if o.InfoNil {
		parts = append(parts, "Info(nil)")
	}
	if o.CBNil {
		parts = append(parts, "Callback(nil)")
	}
	if o.AsEmpty {
		parts = append(parts, "As()")
	}
	if o.LocPC != "" {
		parts = append(parts, "LocPC:"+o.LocPC)
	}
	if len(parts) == 0 {
		return ""
	}
	return " [" + strings.Join(parts, " ") + "]"
}

func (f *Fn) Short() string {
	var ps, rs []string
	for _, p := range f.P {
		ps = append(ps, p.Short())
	}
	if f.Var != "" {
		ps = append(ps, "..."+f.Var)
	}
	for i, r := range f.R {
		if f.Err && f.errPos() == i {
			rs = append(rs, "error")
		}
		rs = append(rs, r.Short())
	}
	if f.Err && f.errPos() >= len(f.R) {
		if f.ErrT != "" {
			rs = append(rs, "error("+f.ErrT+")")
		} else {
			rs = append(rs, "error")
		}
	}
	if f.Err && f.Err2 {
		rs = append(rs, "error")
	}
	s := fmt.Sprintf("f%d(%s)(%s)", f.ID, strings.Join(ps, ","), strings.Join(rs, ","))
	if len(f.Faults) > 0 {
		s += fmt.Sprintf("!%v", f.Faults)
		if f.EK != 0 || f.PK != 0 {
			s += fmt.Sprintf("(ek%d,pk%d)", f.EK, f.PK)
		}
	}
	if f.Bank > 0 {
		s += fmt.Sprintf("#bank%d", f.Bank-1)
	}
	if f.NilFn {
		s += "=nil"
	}
	if f.Side != "" {
		if f.SideFn != nil {
			s += fmt.Sprintf("{body: provide@%d %s}", f.SideS, f.SideFn.Short())
		} else {
			s += fmt.Sprintf("{body: %s@%d}", f.Side, f.SideS)
		}
	}
	if f.Reenter != nil {
		var ps []string
		for _, p := range f.Reenter.P {
			ps = append(ps, p.Short())
		}
		s += fmt.Sprintf("{body: invoke@%d(%s)}", f.Reenter.S, strings.Join(ps, ","))
	}
	return s
}

// errPos returns the index among the non-error results before which the
// error result is placed (len(R) = last), or -1 if there is no error result.
func (f *Fn) errPos() int {
	if !f.Err {
		return -1
	}
	if f.ErrAt <= 0 || f.ErrAt-1 > len(f.R) {
		return len(f.R)
	}
	return f.ErrAt - 1
}

func (p Param) Short() string {
	if p.isObj() {
		var fs []string
		for _, q := range p.Obj {
			fs = append(fs, q.Short())
		}
		if p.Decl != "" {
			return p.Decl + "{" + strings.Join(fs, ";") + "}"
		}
		return "In{" + strings.Join(fs, ";") + "}"
	}
	s := p.T
	if p.Host != "" {
		s = "host:" + p.Host
	}
	if p.Group != "" {
		if p.SlT != "" {
			s = "N" + p.SlT + "_" + s + fmt.Sprintf("`group:%q", p.Group)
		} else {
			s = "[]" + s + fmt.Sprintf("`group:%q", p.Group)
		}
		if p.Soft {
			s += ",soft"
		}
		s += "`"
	}
	if p.Name != "" {
		s += fmt.Sprintf("`name:%q`", p.Name)
	}
	if p.Opt {
		s += "?"
	}
	if p.Tag != "" {
		s += fmt.Sprintf("`raw:%s`", p.Tag)
	}
	if p.ET {
		s += "`+empty tags`"
	}
	return s
}

func (r Result) Short() string {
	if r.isObj() {
		var fs []string
		for _, q := range r.Obj {
			fs = append(fs, q.Short())
		}
		return "Out{" + strings.Join(fs, ";") + "}"
	}
	s := r.T
	if r.Host != "" {
		s = "host:" + r.Host
	}
	if r.Impl != "" {
		s += "=" + r.Impl
	}
	if r.Zero {
		s += "=zero"
	}
	if r.Slice {
		s = fmt.Sprintf("[]%s*%d", s, r.N)
	}
	if r.SlT != "" {
		s = "N" + r.SlT + ":" + s
	}
	if r.Group != "" {
		s += fmt.Sprintf("`group:%q", r.Group)
		if r.Flatten {
			s += ",flatten"
		}
		s += "`"
	}
	if r.Name != "" {
		s += fmt.Sprintf("`name:%q`", r.Name)
	}
	if r.Tag != "" {
		s += fmt.Sprintf("`raw:%s`", r.Tag)
	}
	if r.ET {
		s += "`+empty tags`"
	}
	return s
}

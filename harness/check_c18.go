package harness

import (
	"fmt"
	"strings"

	"pgregory.net/rapid"
)

// ---------------------------------------------------------------------------
// C18 — introspection reports exactly what was declared.
// ---------------------------------------------------------------------------

func typeStr(t string, host string) string {
	if host != "" {
		return hostileType(host).String()
	}
	return rtype(t).String()
}

// expectedInputs renders the model flattening of a parameter list the way
// Input.String() prints it.
func expectedInputs(f *Fn) []string {
	var out []string
	var walk func(p Param)
	walk = func(p Param) {
		if p.isObj() {
			for _, q := range p.Obj {
				walk(q)
			}
			return
		}
		t := typeStr(p.T, p.Host)
		var toks []string
		if p.Group != "" {
			if nt := namedSliceType(p.SlT, p.T); nt != nil && p.Host == "" {
				t = nt.String()
			} else {
				t = "[]" + t
			}
		}
		if p.Opt {
			toks = append(toks, "optional")
		}
		if p.Name != "" {
			toks = append(toks, fmt.Sprintf("name = %q", p.Name))
		}
		if p.Group != "" {
			toks = append(toks, fmt.Sprintf("group = %q", p.Group))
		}
		if len(toks) == 0 {
			out = append(out, t)
		} else {
			out = append(out, fmt.Sprintf("%s[%s]", t, strings.Join(toks, ", ")))
		}
	}
	for _, p := range f.P {
		walk(p)
	}
	return out
}

func expectedOutputs(f *Fn, o *Opts, deco bool) []string {
	var out []string
	for _, s := range slotsOf(f, o, deco) {
		for _, k := range s.Keys {
			t := rtype(k.T).String()
			if deco && k.Group != "" && s.Slice && !s.Flatten {
				t = "[]" + t // decorators return the whole group
				if nt := namedSliceType(s.SlT, k.T); nt != nil {
					t = nt.String()
				}
			}
			var toks []string
			if k.Name != "" {
				toks = append(toks, fmt.Sprintf("name = %q", k.Name))
			}
			if k.Group != "" {
				toks = append(toks, fmt.Sprintf("group = %q", k.Group))
			}
			if len(toks) == 0 {
				out = append(out, t)
			} else {
				out = append(out, fmt.Sprintf("%s[%s]", t, strings.Join(toks, ", ")))
			}
		}
	}
	return out
}

func tagKinds(f *Fn) (kinds int, nest int) {
	seen := map[string]bool{}
	var wp func(p Param, d int)
	wp = func(p Param, d int) {
		if p.isObj() {
			if d+1 > nest {
				nest = d + 1
			}
			for _, q := range p.Obj {
				wp(q, d+1)
			}
			return
		}
		if p.Opt {
			seen["optional"] = true
		}
		if p.Name != "" {
			seen["name"] = true
		}
		if p.Group != "" {
			seen["group"] = true
			if p.Soft {
				seen["soft"] = true
			}
		}
	}
	for _, p := range f.P {
		wp(p, 0)
	}
	var wr func(r Result, d int)
	wr = func(r Result, d int) {
		if r.isObj() {
			if d+1 > nest {
				nest = d + 1
			}
			for _, q := range r.Obj {
				wr(q, d+1)
			}
			return
		}
		if r.Name != "" {
			seen["rname"] = true
		}
		if r.Group != "" {
			seen["rgroup"] = true
		}
		if r.Flatten {
			seen["flatten"] = true
		}
	}
	for _, r := range f.R {
		wr(r, 0)
	}
	return len(seen), nest
}

func checkC18(c *Case, st *Stats) *Failure {
	tr := Run(c, RunOpts{})
	l := map[string]bool{}
	nt := false
	ids := map[int]int{}     // bank entry -> ID
	idOwner := map[int]int{} // ID -> bank entry
	var fail *Failure
	setFail := func(f *Failure) {
		if fail == nil {
			fail = f
		}
	}
	if tr.InfoChanged != "" {
		setFail(&Failure{"info-changed-later", tr.InfoChanged})
	}
	for i, op := range c.Ops {
		out := tr.Ops[i]
		if out.Panicked {
			setFail(&Failure{CEscapedPanic, fmt.Sprintf("op %d (%s) panicked: %v", i, op.Short(), out.PanicVal)})
			continue
		}
		if !out.HasInfo || op.F == nil || fnHasHost(op.F) || (op.O != nil && len(op.O.AsRaw) > 0) {
			continue
		}
		switch op.K {
		case OpProvide, OpDecorate:
			if out.Class != ClOK {
				l["info-on-rejected"] = true
				if out.InfoTouched {
					setFail(&Failure{"info-touched-on-reject", fmt.Sprintf("op %d (%s) was rejected (%v) but its Info struct was modified: ID=%d inputs=%v outputs=%v", i, op.Short(), out.Err, out.InfoID, out.InfoInputs, out.InfoOutputs)})
				}
				continue
			}
			l["info-on-accepted"] = true
			if out.InfoShared {
				l["info-struct-reused"] = true
			}
			if out.InfoID == sentinelInfoID {
				setFail(&Failure{"info-id", fmt.Sprintf("op %d (%s) accepted but Info.ID was not filled", i, op.Short())})
			}
			wantIn := expectedInputs(op.F)
			wantOut := expectedOutputs(op.F, op.O, op.K == OpDecorate)
			if strings.Join(out.InfoInputs, " | ") != strings.Join(wantIn, " | ") {
				setFail(&Failure{"info-inputs", fmt.Sprintf("op %d (%s): Inputs %q, declared %q", i, op.Short(), out.InfoInputs, wantIn)})
			}
			if strings.Join(out.InfoOutputs, " | ") != strings.Join(wantOut, " | ") {
				setFail(&Failure{"info-outputs", fmt.Sprintf("op %d (%s): Outputs %q, declared %q", i, op.Short(), out.InfoOutputs, wantOut)})
			}
			if op.F.Bank > 0 {
				b := op.F.Bank - 1
				if prev, ok := ids[b]; ok {
					l["same-function-twice"] = true
					if prev != out.InfoID {
						setFail(&Failure{"info-id", fmt.Sprintf("op %d: bank function %d got ID %d, an earlier instance got %d", i, b, out.InfoID, prev)})
					}
				}
				if owner, ok := idOwner[out.InfoID]; ok && owner != b {
					setFail(&Failure{"info-id", fmt.Sprintf("op %d: distinct functions bank%d and bank%d share ID %d", i, b, owner, out.InfoID)})
				}
				ids[b] = out.InfoID
				idOwner[out.InfoID] = b
				if len(ids) >= 2 {
					l["ids-of->=2-functions"] = true
				}
			}
			k, n := tagKinds(op.F)
			if n >= 2 || k >= 3 {
				nt = true
			}
			if op.O != nil && len(op.O.As) > 0 {
				l["info-with-as"] = true
			}
			if op.F.Var != "" {
				l["info-with-variadic"] = true
			}
		case OpInvoke:
			// InvokeInfo is filled whenever the arguments could be built: it
			// must describe this function if the function was called, and
			// also whenever the struct was written to at all
			entered := false
			for _, e := range tr.Events(i) {
				if e.Kind == EvEnter && e.Fn == op.F.ID {
					entered = true
				}
			}
			if out.InfoShared && (entered || out.InfoTouched) {
				l["info-struct-reused"] = true
			}
			if out.InfoTouched || entered {
				l["invoke-info"] = true
				wantIn := expectedInputs(op.F)
				if strings.Join(out.InfoInputs, " | ") != strings.Join(wantIn, " | ") {
					setFail(&Failure{"info-inputs", fmt.Sprintf("op %d (%s): InvokeInfo.Inputs %q, declared %q", i, op.Short(), out.InfoInputs, wantIn)})
				}
				k, n := tagKinds(op.F)
				if n >= 2 || k >= 3 {
					nt = true
				}
			}
		}
	}
	// the same functions on another container get the same IDs
	if len(ids) > 0 {
		tr2 := Run(c, RunOpts{})
		for i, op := range c.Ops {
			if op.F != nil && op.F.Bank > 0 && tr.Ops[i].HasInfo && tr.Ops[i].Class == ClOK && tr2.Ops[i].Class == ClOK {
				if tr.Ops[i].InfoID != tr2.Ops[i].InfoID {
					setFail(&Failure{"info-id", fmt.Sprintf("op %d: bank function %d has ID %d on one container and %d on another", i, op.F.Bank-1, tr.Ops[i].InfoID, tr2.Ops[i].InfoID)})
				}
			}
		}
		l["second-container"] = true
	}
	st.Record(c, nt, l)
	return fail
}

func init() {
	register(&PropDef{
		ID:   "C18",
		Rule: "signatures from the full valid grammar (positional values, nested In/Out objects, names, optional, groups incl. soft and flatten, As lists, variadics) registered with FillProvideInfo / FillDecorateInfo / FillInvokeInfo on pre-filled structs, plus rejected registrations (duplicates, cycles, bad signatures) and, for IDs, histories over the declared function bank with repeated instances and a second container; oracle: the model's flattening (declaration order, objects depth-first, variadic and error omitted, As expanded, flatten -> element type) rendered like Input/Output.String(); rejected => Info untouched; distinct literals <=> distinct IDs; non-trivial = an accepted registration or Invoke with Info whose signature nests objects >=2 deep or uses >=3 tag kinds; distinct by FNV-64 of the canonical IR",
		Gen: func(t *rapid.T, thorough bool) *Case {
			if rapid.IntRange(0, 9).Draw(t, "kind") < 3 {
				bk := DefaultBankKnobs()
				bk.PInfo, bk.PRepeat = 90, 35
				bk.PInfoShare = 35
				bk.PLocPC = 15 // IDs follow the function, not the LocationForPC override
				bk.WDecorate = 4
				return GenBankCase(t, bk)
			}
			k := DefaultKnobs()
			k.PInfo = 85
			k.PInfoShare = 35
			k.PNilOptArg = 8
			k.WBadProvide, k.WCycleCloser, k.WDupDecorate, k.WBadDecorate = 2, 2, 2, 1
			k.PFresh = 80
			k.PAs, k.PVariadic, k.PSoft, k.PFlatten = 30, 20, 40, 40
			k.PAsObj = 25 // As lists of several interfaces on constructors with several results
			k.PGroupOptMulti = 12
			k.PGroupParam, k.PGroupRes, k.PNamed, k.POpt = 35, 35, 35, 30
			k.PNest = 50
			k.WDecorate = 5
			return GenCase(t, scale(k, thorough))
		},
		Check: checkC18,
	})
}

package harness

import (
	"pgregory.net/rapid"
)

// Fault-driven checks: C07 (failed executions), C13 (error transparency),
// C20 (callbacks; over the declared function bank).

func init() {
	modelCheck{
		id:   "C07",
		rule: "histories x fault plans: every constructor/decorator may get a per-execution outcome sequence (error / panic / ok, values always returned next to the error), RecoverFromPanics on or off, continuation demanding the same keys again from the same and other scopes; non-trivial = a function failed and a later Invoke executed it again, or a failure happened in an Invoke in which other functions succeeded",
		knobs: func() Knobs {
			k := DefaultKnobs()
			k.NoFaults, k.PFault, k.PErr, k.PPanic = false, 30, 55, 30
			k.PFaultKind = 25
			k.PCallback = 12 // a callback must not change what a failure does
			k.PErr2 = 8      // two error results, both non-nil on failure
			k.PErrPtr = 4    // error result of a concrete type
			k.PSide = 8
			k.PRecover = 65
			k.WInvoke = 11
			k.WDecorate = 4
			k.MaxOps = 26
			k.Types = []string{"T0", "T1", "T2", "T3", "S0"}
			k.Ifaces = []string{"I0"}
			k.TwoPhase = true
			return k
		},
		clauses: []string{CPoisoned, CRootCause, CContinued, CExecTwice, CBadExec, CProvSingle, CGroupMultiset, CMustRunMissing, CZeroRequired, CVerdictInvoke, CSpuriousCycle},
		nt:      func(l map[string]bool) bool { return l["retry-after-fault"] || l["failure-beside-success"] },
		valid:   true,
		deep:    4,
		assume:  []string{"a panic escaping Invoke (RecoverFromPanics off) is caught by the harness's own recover()"},
	}.register()

	modelCheck{
		id:   "C13",
		rule: "one or more failure sources per history: constructors, decorators and invoked functions failing by error or panic, plus dig's own rejections (missing type at depth d, duplicate, cycle, invalid input) through objects, groups and scopes, RecoverFromPanics on/off; oracle: identity of the invoked function's error, RootCause/errors.Is identity for constructor and decorator errors, dig.Error after RootCause for dig-originated failures, IsCycleDetected only for cycle rejections, PanicError carrying the panic value (not a dig.Error) or the unchanged panic reaching the caller; non-trivial = a user failure at resolution depth >=3, or in a group feeder, or in a function registered in another scope than the invoking one",
		knobs: func() Knobs {
			k := DefaultKnobs()
			k.NoFaults, k.PFault, k.PErr, k.PPanic = false, 28, 55, 40
			k.PFaultKind = 45
			k.PCallback = 15 // a callback must not change how a panic / error surfaces
			k.PErr2 = 8      // two error results: the root cause is one of the function's own errors
			k.PErrPtr = 4    // error result of a concrete type
			k.PRecover = 50
			k.PHole = 60
			k.PAvail = 90
			k.WCycleCloser, k.WBadProvide, k.WDupDecorate = 3, 1, 1
			// cycles that only run-time resolution meets (exported
			// constructors of sibling scopes; DeferAcyclicVerification):
			// IsCycleDetected must be true for those rejections too
			k.WShadowCycle, k.PCycleKeep, k.PDefer, k.PExport = 1, 25, 30, 25
			k.WInvoke = 10
			k.MaxScopes = 5
			k.PFresh = 85
			k.TwoPhase = true
			k.MaxOps = 26
			return k
		},
		clauses: []string{CRootCause, CErrIdentity, CErrClass, CSpuriousCycle, CMissedCycleInvoke, CContinued},
		deep:    6,
		risky:   "run", // in-process; if a worker dies the driver reports the in-flight case
		nt: func(l map[string]bool) bool {
			return l["user-failure"] && (l["fail-depth>=3"] || l["fail-through-group"] || l["fail-cross-scope"])
		},
		valid: false,
	}.register()

	register(&PropDef{
		ID:          "C20",
		Rule:        "histories over the declared function bank (distinct code pointers, so CallbackInfo.Name is meaningful) with callbacks on a random subset of constructors and decorators, fault plans, RecoverFromPanics on/off and a mock clock that every function body advances by its own amount; oracle: callback events correspond one-to-one and in order to executions, Error is nil / has the function's own error as root cause / is a PanicError with the panic value, Name is package.function of the bank literal, Runtime equals the function's own clock advance exactly; non-trivial = >=2 callbacks fire in one Invoke, or a callback-bearing function is demanded again after it was cached or is retried after a failure; distinct by FNV-64 of the canonical IR",
		Assumptions: []string{"hook VerifMockClock (build tag verif) installs dig's own digclock.Mock", "Error passed to the callback when a panic is NOT recovered is not asserted (the property speaks of recovered panics)"},
		Gen: func(t *rapid.T, thorough bool) *Case {
			bk := DefaultBankKnobs()
			bk.PCallback, bk.PFault, bk.PPanic, bk.PDur = 65, 25, 35, 80
			bk.PFaultKind = 30
			bk.PLocPC = 12
			bk.PRepeat = 25 // the same function registered again (other scope / rejected duplicate)
			bk.PSysClock = 10
			bk.PErrPtr = 5 // error results of a concrete type: the callback must see the failure
			bk.PErr2 = 8   // functions with two error results: the callback's Error must lead to one of them
			bk.WInvoke, bk.WDecorate = 8, 3
			bk.PDeep, bk.PChain = 70, 50
			bk.MaxOps = 20
			if thorough {
				bk.MaxOps, bk.MaxScopes = 30, 6
			}
			return GenBankCase(t, bk)
		},
		Check: func(c *Case, st *Stats) *Failure {
			tr := Run(c, RunOpts{})
			v := Validate(c, tr, VOpts{})
			l := CaseLabels(c, v)
			ModelLabels(c, v, l)
			nt := l["callback-fired"] && (l["cb>=2-in-one-invoke"] || l["cb-fn-cached"] || l["cb-fn-retried"])
			st.Record(c, nt, l)
			return failFrom(v.First(CCallback, CForeign))
		},
	})
}

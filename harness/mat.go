package harness

import (
	"errors"
	"fmt"
	"reflect"
	"runtime"
	"sort"
	"strings"
	"time"

	"go.uber.org/dig"
)

// ---------------------------------------------------------------------------
// Runtime: per-case log, token table, execution counters. No package-level
// mutable state.
// ---------------------------------------------------------------------------

type TokDesc struct {
	Fn   int    `json:"fn"`
	Exec int    `json:"exec"`
	Slot string `json:"slot"`
	Elem int    `json:"elem"`
}

// Prov is the decoded provenance of one argument.
type Prov struct {
	Kind    string   `json:"kind"` // "single" | "group" | "obj" | "foreign"
	Tok     int64    `json:"tok,omitempty"`
	Dyn     string   `json:"dyn,omitempty"` // dynamic type of an interface value
	Elems   []int64  `json:"elems,omitempty"`
	ElemDyn []string `json:"-"`
	NilSl   bool     `json:"nilsl,omitempty"`
	Fields  []Prov   `json:"fields,omitempty"`
}

const (
	EvEnter  = "enter"
	EvExit   = "exit"
	EvCB     = "cb"
	EvNested = "nested" // an Invoke made from inside a callback returned: Fn = id of the nested function, SideErr = its result, Active = functions whose bodies were running
	EvSide   = "side"   // a registration made from inside a user function body
)

type Event struct {
	Kind    string
	Op      int // index of the API op during which it happened
	Fn      int
	Exec    int
	Args    []Prov  // enter
	Outcome int     // exit
	Toks    []int64 // exit: tokens produced by this execution
	// callback
	CBName    string
	CBErr     error
	CBRuntime time.Duration
	CBPanics  bool // the callback panicked after logging this event
	// EvSide: Fn = id of the constructor provided, SideScope, SideErr
	SideScope int
	SideErr   error
	Active    []int
}

// cbNestedID is the id of the function a callback of fn invokes (Opts.CBInvoke).
func cbNestedID(fn int) int { return -(1000000 + fn) }

// cbNested: the body of a callback with Opts.CBInvoke.
func (rt *RT) cbNested(id int, spec *Reenter, cbErr error) {
	if spec == nil || cbErr != nil || rt.cbCalls[id] != 1 || rt.scopeOf == nil {
		return
	}
	// not while a panic of the function itself is in flight (dig calls the
	// callback from a deferred function, with a nil Error when it does not
	// recover the panic): a second panic raised under the nested Invoke would
	// replace the first one on its way to the caller
	for j := len(rt.Log) - 1; j >= 0; j-- {
		if ev := rt.Log[j]; ev.Kind == EvExit && ev.Fn == id {
			if ev.Outcome != FaultOK {
				return
			}
			break
		}
	}
	var act []int
	for f, n := range rt.active {
		if n > 0 {
			act = append(act, f)
		}
	}
	sort.Ints(act)
	nf := &Fn{ID: cbNestedID(id), P: spec.P}
	var err error
	func() {
		defer func() {
			if p := recover(); p != nil {
				err = fmt.Errorf("nested Invoke panicked: %v", p)
				rt.Log = append(rt.Log, Event{Kind: EvNested, Op: rt.curOp, Fn: nf.ID, SideErr: err, Active: act, CBPanics: true})
				panic(p)
			}
		}()
		err = rt.scopeOf(spec.S).Invoke(rt.Materialise(nf))
	}()
	rt.Log = append(rt.Log, Event{Kind: EvNested, Op: rt.curOp, Fn: nf.ID, SideScope: spec.S, SideErr: err, Active: act})
}

// PanicSlice is a panic value whose type is not comparable (Fn.PK == 6).
type PanicSlice []int

// runtimePanicMarker stands for "a runtime.Error raised by a nil-map write in
// the body" (Fn.PK == 7): the value itself is made by the Go runtime.
var runtimePanicMarker = &struct{ s string }{"runtime error provoked by the body"}

// samePanic: got is the value that the execution panicked with (want, from
// panicOf); safe for values that are not comparable.
func samePanic(got, want interface{}) bool {
	if want == interface{}(runtimePanicMarker) {
		re, ok := got.(runtime.Error)
		return ok && strings.Contains(re.Error(), "nil map")
	}
	if ws, ok := want.(PanicSlice); ok {
		gs, ok := got.(PanicSlice)
		return ok && len(gs) == len(ws) && len(gs) > 0 && &gs[0] == &ws[0]
	}
	if _, ok := got.(PanicSlice); ok {
		return false
	}
	if _, ok := got.(runtime.Error); ok {
		return false
	}
	return got == want
}

// CBPanicVal is what a panicking callback panics with.
type CBPanicVal struct{ Fn int }

type UserErr struct {
	Fn, Exec int
	Inner    error // EK 1: a dig.Error from another container, wrapped
	Second   bool  // the value of the function's second error result
}

func (e *UserErr) Error() string {
	if e.Second {
		return fmt.Sprintf("second user error of f%d exec %d", e.Fn, e.Exec)
	}
	if e.Inner != nil {
		return fmt.Sprintf("user error of f%d exec %d: %v", e.Fn, e.Exec, e.Inner)
	}
	return fmt.Sprintf("user error of f%d exec %d", e.Fn, e.Exec)
}
func (e *UserErr) Unwrap() error { return e.Inner }

// Extra makes *UserErr satisfy HErrIface (an interface embedding error).
func (e *UserErr) Extra() {}

// errTypeOf: the declared type of f's error result.
func errTypeOf(f *Fn) reflect.Type {
	if f.ErrT == "iface" {
		return hostileType("HErrIface")
	}
	if f.ErrT == "ptr" {
		// a concrete type that implements error: dig takes it for the error
		// result; such a function never succeeds (a nil *HErrPtr in the
		// error interface is not nil)
		return reflect.TypeOf((*HErrPtr)(nil))
	}
	return errType
}

type PanicVal struct{ Fn, Exec int }

// PanicErr is a panic value that is an error (PK 1-3), possibly wrapping a
// dig.Error obtained from another container.
type PanicErr struct {
	Fn, Exec int
	Inner    error
}

func (e *PanicErr) Error() string { return fmt.Sprintf("panic error of f%d exec %d", e.Fn, e.Exec) }
func (e *PanicErr) Unwrap() error { return e.Inner }

// dig errors obtained from scratch containers (what user code that drives a
// second container would get and pass on)
// foreignPanicErr: the error another container (with RecoverFromPanics)
// returns when one of its constructors panicked - user code following the
// `if err != nil { panic(err) }` idiom would panic with (a wrapper of) it.
var foreignPanicErr = func() error {
	c := dig.New(dig.RecoverFromPanics())
	_ = c.Provide(func() *T4 { panic("foreign panic") })
	err := c.Invoke(func(*T4) {})
	var pe dig.PanicError
	if err == nil || !errors.As(err, &pe) {
		panic("harness: could not obtain a foreign PanicError")
	}
	return err
}()

var foreignMissingErr, foreignCycleErr = func() (error, error) {
	c := dig.New()
	missing := c.Invoke(func(*T4) {})
	c2 := dig.New()
	_ = c2.Provide(func(*T0) *T1 { return nil })
	cyc := c2.Provide(func(*T1) *T0 { return nil })
	if missing == nil || cyc == nil || !dig.IsCycleDetected(cyc) {
		panic("harness: could not obtain foreign dig errors")
	}
	return missing, cyc
}()

type RT struct {
	Log       []Event
	Toks      []TokDesc // token t is Toks[t-1]
	execs     map[int]int
	errs      map[[2]int]*UserErr
	errs2     map[[2]int]*UserErr // second error results (Fn.Err2)
	errPtrs   map[[2]int]*HErrPtr // error values of functions whose error result is declared *HErrPtr (Fn.ErrT == "ptr")
	panics    map[[2]int]interface{}
	ek, pk    map[int]int // fn id -> error / panic kind (from the Fn specs seen)
	errT      map[int]string
	curOp     int
	advance   func(time.Duration)
	ftypes    map[*Fn]reflect.Type
	scopeOf   func(int) scopeAPI // set by Run: scope index -> live scope
	root      *dig.Container     // set by Run
	Sides     int                // side calls made from inside bodies
	decoIDs   map[int]bool       // fn ids registered through Decorate
	Reentered int
	cbCalls   map[int]int
	infos     infoSlots
	kept      []keptInfo
	active    map[int]int // fn → number of bodies currently on the stack
	Nested    []int       // fns whose body was entered while already running
}

func newRT() *RT {
	return &RT{cbCalls: map[int]int{}, infos: infoSlots{map[int]*dig.ProvideInfo{}, map[int]*dig.DecorateInfo{}, map[int]*dig.InvokeInfo{}}, decoIDs: map[int]bool{}, ftypes: map[*Fn]reflect.Type{}, execs: map[int]int{}, errs: map[[2]int]*UserErr{}, errs2: map[[2]int]*UserErr{}, errPtrs: map[[2]int]*HErrPtr{}, panics: map[[2]int]interface{}{}, ek: map[int]int{}, pk: map[int]int{}, errT: map[int]string{}, active: map[int]int{}}
}

func (rt *RT) newTok(fn, exec int, slot string, elem int) int64 {
	rt.Toks = append(rt.Toks, TokDesc{fn, exec, slot, elem})
	return int64(len(rt.Toks))
}

func (rt *RT) Desc(tok int64) (TokDesc, bool) {
	if tok <= 0 || int(tok) > len(rt.Toks) {
		return TokDesc{}, false
	}
	return rt.Toks[tok-1], true
}

func (rt *RT) errOf(fn, exec int) *UserErr {
	k := [2]int{fn, exec}
	if e, ok := rt.errs[k]; ok {
		return e
	}
	e := &UserErr{Fn: fn, Exec: exec}
	if rt.ek[fn] == 1 {
		e.Inner = foreignMissingErr
	}
	rt.errs[k] = e
	return e
}

// err2Of: the value of the second error result (Fn.Err2) of a failing execution.
func (rt *RT) err2Of(fn, exec int) *UserErr {
	k := [2]int{fn, exec}
	if e, ok := rt.errs2[k]; ok {
		return e
	}
	e := &UserErr{Fn: fn, Exec: exec, Second: true}
	rt.errs2[k] = e
	return e
}

// ownErr: e is (identical to) one of the errors that execution returned.
func (rt *RT) ownErr(fn, exec int, e error) bool {
	if e == nil {
		return false
	}
	if e == rt.errValueOf(fn, exec) {
		return true
	}
	if e2, ok := rt.errs2[[2]int{fn, exec}]; ok && e == error(e2) {
		return true
	}
	return false
}

// errValueOf: the error value a failing execution returns: the sentinel, or
// (EK 2) a typed nil pointer in the error interface - not nil, so a failure.
func (rt *RT) errValueOf(fn, exec int) error {
	if rt.errT[fn] == "ptr" {
		k := [2]int{fn, exec}
		if e, ok := rt.errPtrs[k]; ok {
			return e
		}
		e := &HErrPtr{X: fn*1000 + exec}
		rt.errPtrs[k] = e
		return e
	}
	if rt.ek[fn] == 2 && rt.errT[fn] == "" {
		return typedNilErr
	}
	return rt.errOf(fn, exec)
}

var typedNilErr error = (*HErrPtr)(nil)

func (rt *RT) panicOf(fn, exec int) interface{} {
	k := [2]int{fn, exec}
	if e, ok := rt.panics[k]; ok {
		return e
	}
	var e interface{}
	switch rt.pk[fn] {
	case 1:
		e = &PanicErr{Fn: fn, Exec: exec}
	case 2:
		e = &PanicErr{Fn: fn, Exec: exec, Inner: foreignMissingErr}
	case 3:
		e = &PanicErr{Fn: fn, Exec: exec, Inner: foreignCycleErr}
	case 4:
		e = fmt.Sprintf("panic of f%d exec %d", fn, exec)
	case 5:
		e = &PanicErr{Fn: fn, Exec: exec, Inner: foreignPanicErr}
	case 6:
		e = PanicSlice{fn, exec} // a value of a type that is not comparable
	case 7:
		e = runtimePanicMarker // the body provokes a real runtime error
	default:
		e = &PanicVal{fn, exec}
	}
	rt.panics[k] = e
	return e
}

// ---------------------------------------------------------------------------
// Type construction
// ---------------------------------------------------------------------------

var (
	inType   = reflect.TypeOf(dig.In{})
	outType  = reflect.TypeOf(dig.Out{})
	errType  = reflect.TypeOf((*error)(nil)).Elem()
	hostiles = map[string]reflect.Type{}
)

func paramTag(p Param) reflect.StructTag {
	if p.Tag != "" {
		return reflect.StructTag(p.Tag)
	}
	var parts []string
	if p.Name != "" {
		parts = append(parts, fmt.Sprintf("name:%q", p.Name))
	}
	if p.Opt {
		parts = append(parts, `optional:"true"`)
	}
	if p.Group != "" {
		g := p.Group
		if p.Soft {
			g += ",soft"
		}
		parts = append(parts, fmt.Sprintf("group:%q", g))
	}
	if p.ET {
		if p.Name == "" {
			parts = append(parts, `name:""`)
		}
		if p.Group == "" {
			parts = append(parts, `group:""`)
		}
	}
	return reflect.StructTag(strings.Join(parts, " "))
}

func resultTag(r Result) reflect.StructTag {
	if r.Tag != "" {
		return reflect.StructTag(r.Tag)
	}
	var parts []string
	if r.Name != "" {
		parts = append(parts, fmt.Sprintf("name:%q", r.Name))
	}
	if r.Group != "" {
		g := r.Group
		if r.Flatten {
			g += ",flatten"
		}
		parts = append(parts, fmt.Sprintf("group:%q", g))
	}
	if r.ET {
		if r.Name == "" {
			parts = append(parts, `name:""`)
		}
		if r.Group == "" {
			parts = append(parts, `group:""`)
		}
	}
	return reflect.StructTag(strings.Join(parts, " "))
}

func paramType(p Param) reflect.Type {
	if d, ok := declIns[p.Decl]; ok && p.Decl != "" {
		return d.RT
	}
	if p.isObj() {
		var fields []reflect.StructField
		at := embedPos(p.EmbedAt, len(p.Obj))
		for i, q := range p.Obj {
			if i == at {
				fields = append(fields, reflect.StructField{Name: "In", Type: inType, Anonymous: true})
			}
			fields = append(fields, reflect.StructField{
				Name: fmt.Sprintf("F%d", i),
				Type: paramType(q),
				Tag:  paramTag(q),
			})
		}
		if at >= len(p.Obj) {
			fields = append(fields, reflect.StructField{Name: "In", Type: inType, Anonymous: true})
		}
		return reflect.StructOf(fields)
	}
	var t reflect.Type
	if p.Host != "" {
		t = hostileType(p.Host)
	} else {
		t = rtype(p.T)
	}
	if p.Group != "" {
		if nt := namedSliceType(p.SlT, p.T); nt != nil && p.Host == "" {
			return nt
		}
		return reflect.SliceOf(t)
	}
	return t
}

func resultType(r Result) reflect.Type {
	if r.isObj() {
		var fields []reflect.StructField
		at := embedPos(r.EmbedAt, len(r.Obj))
		for i, q := range r.Obj {
			if i == at {
				fields = append(fields, reflect.StructField{Name: "Out", Type: outType, Anonymous: true})
			}
			fields = append(fields, reflect.StructField{
				Name: fmt.Sprintf("F%d", i),
				Type: resultType(q),
				Tag:  resultTag(q),
			})
		}
		if at >= len(r.Obj) {
			fields = append(fields, reflect.StructField{Name: "Out", Type: outType, Anonymous: true})
		}
		return reflect.StructOf(fields)
	}
	var t reflect.Type
	if r.Host != "" {
		t = hostileType(r.Host)
	} else {
		t = rtype(r.T)
	}
	if r.Slice || r.Flatten {
		if nt := namedSliceType(r.SlT, r.T); nt != nil && r.Host == "" {
			return nt
		}
		return reflect.SliceOf(t)
	}
	return t
}

// embedPos clips the position of the embedded In/Out marker.
func embedPos(at, n int) int {
	if at < 0 {
		return 0
	}
	if at > n {
		return n
	}
	return at
}

// fieldIdx: struct index of field i of an object whose marker sits at `at`.
func fieldIdx(i, at int) int {
	if i < at {
		return i
	}
	return i + 1
}

func fnType(f *Fn) reflect.Type {
	var in, out []reflect.Type
	for _, p := range f.P {
		in = append(in, paramType(p))
	}
	variadic := false
	if f.Var != "" {
		in = append(in, reflect.SliceOf(rtype(f.Var)))
		variadic = true
	}
	ep := f.errPos()
	for i, r := range f.R {
		if ep == i {
			out = append(out, errTypeOf(f))
		}
		out = append(out, resultType(r))
	}
	if ep >= len(f.R) {
		out = append(out, errTypeOf(f))
	}
	if f.Err && f.Err2 {
		out = append(out, errType)
	}
	return reflect.FuncOf(in, out, variadic)
}

// ---------------------------------------------------------------------------
// Probe bodies
// ---------------------------------------------------------------------------

func decodeArg(p Param, v reflect.Value) Prov {
	if p.Decl != "" {
		pr := Prov{Kind: "obj"}
		d := declIns[p.Decl]
		for i, q := range d.Fields {
			pr.Fields = append(pr.Fields, decodeArg(q, v.FieldByName(d.fieldName(i))))
		}
		if !unexportedZero(v) {
			return foreignTree(p) // dig wrote to an unexported field
		}
		return pr
	}
	if p.isObj() {
		pr := Prov{Kind: "obj"}
		at := embedPos(p.EmbedAt, len(p.Obj))
		for i, q := range p.Obj {
			pr.Fields = append(pr.Fields, decodeArg(q, v.Field(fieldIdx(i, at))))
		}
		return pr
	}
	if p.Host != "" {
		return Prov{Kind: "foreign"}
	}
	if p.Group != "" {
		pr := Prov{Kind: "group", NilSl: v.IsNil()}
		for i := 0; i < v.Len(); i++ {
			tok, ok := tokOf(v.Index(i))
			if !ok {
				tok = -1
			}
			pr.Elems = append(pr.Elems, tok)
			pr.ElemDyn = append(pr.ElemDyn, dynTypeName(v.Index(i)))
		}
		return pr
	}
	tok, ok := tokOf(v)
	if !ok {
		return Prov{Kind: "foreign"}
	}
	return Prov{Kind: "single", Tok: tok, Dyn: dynTypeName(v)}
}

// foreignTree marks every leaf below p as a foreign value.
func foreignTree(p Param) Prov {
	if !p.isObj() {
		return Prov{Kind: "foreign"}
	}
	pr := Prov{Kind: "obj"}
	for _, q := range p.Obj {
		pr.Fields = append(pr.Fields, foreignTree(q))
	}
	return pr
}

// mkResult builds a value of type t for result spec r (t is taken from the
// function's real signature so that declared struct types work too).
func (rt *RT) mkResult(f *Fn, exec int, r Result, t reflect.Type, slot string, toks *[]int64) reflect.Value {
	if r.isObj() {
		v := reflect.New(t).Elem()
		at := embedPos(r.EmbedAt, len(r.Obj))
		if f.Bank > 0 {
			at = 0 // declared bank structs have the marker first
		}
		for i, q := range r.Obj {
			fi := fieldIdx(i, at)
			v.Field(fi).Set(rt.mkResult(f, exec, q, t.Field(fi).Type, fmt.Sprintf("%s.%d", slot, i), toks))
		}
		return v
	}
	if r.Host == "NS0" || r.Host == "NS1" {
		// one element, so that a (wrongly) accepted flatten has something to submit
		sl := reflect.MakeSlice(t, 1, 1)
		if r.Host == "NS0" {
			sl.Index(0).Set(reflect.ValueOf(&T0{}))
		}
		return sl
	}
	if r.Host != "" {
		return reflect.Zero(t)
	}
	if r.Slice || r.Flatten {
		if r.N == 0 && r.Nil {
			return reflect.Zero(t)
		}
		sl := reflect.MakeSlice(t, 0, r.N)
		for e := 0; e < r.N; e++ {
			if e == 0 && r.Zero {
				// the first element is the zero value (nil pointer / nil
				// interface / S0{}): still a member
				sl = reflect.Append(sl, reflect.Zero(t.Elem()))
				continue
			}
			if r.Rep && e > 0 && sl.Len() > 0 && !r.Zero {
				sl = reflect.Append(sl, sl.Index(0)) // the very same value again
				continue
			}
			tok := rt.newTok(f.ID, exec, slot, e)
			*toks = append(*toks, tok)
			sl = reflect.Append(sl, mkValue(r.T, r.Impl, tok))
		}
		return sl
	}
	if r.Zero {
		return reflect.Zero(t)
	}
	tok := rt.newTok(f.ID, exec, slot, 0)
	*toks = append(*toks, tok)
	return mkValue(r.T, r.Impl, tok)
}

func (rt *RT) typeOfFn(f *Fn) reflect.Type {
	if f.Bank > 0 && f.Bank <= len(bankTypes) {
		return bankTypes[f.Bank-1]
	}
	if t, ok := rt.ftypes[f]; ok {
		return t
	}
	t := fnType(f)
	rt.ftypes[f] = t
	return t
}

// call is the body shared by every materialised function.
func (rt *RT) call(f *Fn, args []reflect.Value) []reflect.Value {
	rt.ek[f.ID], rt.pk[f.ID], rt.errT[f.ID] = f.EK, f.PK, f.ErrT
	exec := rt.execs[f.ID]
	rt.execs[f.ID]++
	ev := Event{Kind: EvEnter, Op: rt.curOp, Fn: f.ID, Exec: exec}
	for i, p := range f.P {
		ev.Args = append(ev.Args, decodeArg(p, args[i]))
	}
	rt.Log = append(rt.Log, ev)
	if rt.active[f.ID] > 0 {
		rt.Nested = append(rt.Nested, f.ID)
	}
	rt.active[f.ID]++
	defer func() { rt.active[f.ID]-- }()
	if f.Dur > 0 && rt.advance != nil {
		rt.advance(time.Duration(f.Dur))
	}
	if f.Reenter != nil && exec == 0 && rt.scopeOf != nil && rt.active[f.ID] == 1 {
		// not while a decorator is on the stack: resolution then skips it
		// by design and the nested consumer would see the undecorated value
		decoActive := false
		for id, n := range rt.active {
			if n > 0 && rt.decoIDs[id] {
				decoActive = true
			}
		}
		if !decoActive || rt.decoIDs[f.ID] {
			// (a decorator that re-enters on purpose: only execution
			// counts are judged for such histories)
			rt.Reentered++
			nf := &Fn{ID: -f.ID, P: f.Reenter.P}
			_ = rt.scopeOf(f.Reenter.S).Invoke(rt.Materialise(nf))
		}
	}
	if f.Side != "" && rt.scopeOf != nil {
		rt.Sides++
		sc := rt.scopeOf(f.SideS)
		switch f.Side {
		case "string":
			_ = sc.String()
		case "visualize":
			if rt.root != nil {
				var buf strings.Builder
				_ = dig.Visualize(rt.root, &buf)
			}
		case "scope":
			_ = sc.Scope("side")
		case "provide-key":
			if f.SideFn != nil && exec == 0 {
				err := sc.Provide(rt.Materialise(f.SideFn))
				rt.Log = append(rt.Log, Event{Kind: EvSide, Op: rt.curOp, Fn: f.SideFn.ID, SideScope: f.SideS, SideErr: err})
			}
		case "provide":
			_ = sc.Provide(func() *TX { return nil })
		case "decorate":
			_ = sc.Decorate(func(x *TX) *TX { return x })
		}
	}
	outcome := FaultOK
	if exec < len(f.Faults) {
		outcome = f.Faults[exec]
	}
	if outcome == FaultPanic {
		rt.Log = append(rt.Log, Event{Kind: EvExit, Op: rt.curOp, Fn: f.ID, Exec: exec, Outcome: FaultPanic})
		pv := rt.panicOf(f.ID, exec)
		if pv == interface{}(runtimePanicMarker) {
			var nilMap map[int]int
			nilMap[f.ID] = exec // runtime error: assignment to entry in nil map
		}
		panic(pv)
	}
	if outcome == FaultError && !f.Err {
		outcome = FaultOK // no error result to fail with
	}
	if f.Err && f.ErrT == "ptr" {
		outcome = FaultError // see errTypeOf: every execution is a failure
	}
	var toks []int64
	var out []reflect.Value
	ep := f.errPos()
	et := errTypeOf(f)
	if f.Bank > 0 && f.ErrT != "ptr" {
		et = errType
	}
	errVal := reflect.Zero(et)
	if outcome == FaultError {
		errVal = reflect.New(et).Elem()
		errVal.Set(reflect.ValueOf(rt.errValueOf(f.ID, exec)))
	}
	ft := rt.typeOfFn(f)
	for i, r := range f.R {
		if ep == i {
			out = append(out, errVal)
		}
		out = append(out, rt.mkResult(f, exec, r, ft.Out(len(out)), fmt.Sprint(i), &toks))
	}
	if ep >= len(f.R) {
		out = append(out, errVal)
	}
	if f.Err && f.Err2 {
		e2 := reflect.Zero(errType)
		if outcome == FaultError {
			e2 = reflect.New(errType).Elem()
			e2.Set(reflect.ValueOf(rt.err2Of(f.ID, exec)))
		}
		out = append(out, e2)
	}
	rt.Log = append(rt.Log, Event{Kind: EvExit, Op: rt.curOp, Fn: f.ID, Exec: exec, Outcome: outcome, Toks: toks})
	return out
}

// Materialise builds a live Go function for the spec.
func (rt *RT) Materialise(f *Fn) interface{} {
	if f.Bank > 0 {
		return bankMake(rt, f)
	}
	ft := rt.typeOfFn(f)
	if f.NilFn {
		return reflect.Zero(ft).Interface()
	}
	return reflect.MakeFunc(ft, func(args []reflect.Value) []reflect.Value {
		return rt.call(f, args)
	}).Interface()
}

// bankLookup is assigned in bank.go's init (indirection avoids an
// initialisation cycle between the bank literals and the probe body).
var bankLookup func(i int) func(rt *RT, f *Fn) interface{}

func bankMake(rt *RT, f *Fn) interface{} {
	mk := bankLookup(f.Bank - 1)
	if mk == nil {
		panic(fmt.Sprintf("no bank entry %d", f.Bank-1))
	}
	return mk(rt, f)
}

func hostileType(name string) reflect.Type {
	t, ok := hostiles[name]
	if !ok {
		panic("unknown hostile type " + name)
	}
	return t
}

package harness

import (
	"fmt"

	"pgregory.net/rapid"
)

// ---------------------------------------------------------------------------
// Property registry. Each property has a generator (rapid → Case), a check
// (Case → Failure or nil, recording statistics) and a stated rule for what
// counts as a non-trivial case.
// ---------------------------------------------------------------------------

type Failure struct {
	Clause string
	Msg    string
}

func (f *Failure) Error() string { return fmt.Sprintf("[%s] %s", f.Clause, f.Msg) }

type PropDef struct {
	ID          string
	Rule        string
	Assumptions []string
	// Pre runs once per shard before the generated search (exhaustive parts).
	Pre   func(st *Stats, shard, shards int, thorough bool) (*Case, *Failure)
	Gen   func(t *rapid.T, thorough bool) *Case
	Check func(c *Case, st *Stats) *Failure
}

var Props = map[string]*PropDef{}

func register(p *PropDef) {
	// the rule strings describe the domain of the first build; what every
	// generator draws in addition is listed per round in DESIGN.md
	p.Rule += "; input dimensions added later (typed-nil / multi-interface As, several error results, callbacks and bodies that call Invoke, panic kinds, empty tags, deep object nesting, decorators of unprovided keys, ...) are listed in DESIGN.md 6.1"
	Props[p.ID] = p
}

func failFrom(f *Finding) *Failure {
	if f == nil {
		return nil
	}
	return &Failure{Clause: f.Clause, Msg: f.String()}
}

func scale(k Knobs, thorough bool) Knobs {
	if thorough {
		k.MaxOps = k.MaxOps * 3 / 2
		k.MaxScopes += 3
		k.MaxDepth++
	}
	return k
}

// clauses every model-based check asserts (harness sanity + no escaped panic)
var commonClauses = []string{CEscapedPanic, CForeign, CNestedInvoke}

// ---------------------------------------------------------------------------
// C01 — injected values are exactly the registered constructors' outputs
// ---------------------------------------------------------------------------

func init() {
	register(&PropDef{
		ID:   "C01",
		Rule: "rapid-generated histories (all shapes; a few failing executions, mostly unrecovered panics, so that later Invokes run on a container that has seen failures); non-trivial = at least one successful Invoke executing >=3 user functions in a case with >=2 of {scope depth>=2, decorator, group, named, optional, Export, As, nested object}; distinct by FNV-64 of the canonical IR",
		Gen: func(t *rapid.T, thorough bool) *Case {
			k := DefaultKnobs()
			k.TwoPhase = true
			k.MaxOps = 26
			// a few failing executions (mostly panics, mostly not recovered by
			// dig): what later Invokes inject must still obey the rule
			k.NoFaults, k.PFault, k.PPanic = false, 6, 65
			k.PSide = 8
			k.PSideKey = 4
			// callbacks that invoke a consumer of their function's own keys
			k.PCallback, k.PCBInvoke = 8, 50
			if rapid.IntRange(0, 19).Draw(t, "reentrant-case") < 3 {
				// constructor bodies that call Invoke (no decorators there:
				// a running decorator is skipped by design)
				k.NoDecorators = true
				k.PReenter = 40
				k.NoFaults = true // the error of a nested Invoke is dropped by the body
			}
			return GenCase(t, scale(k, thorough))
		},
		Check: func(c *Case, st *Stats) *Failure {
			tr := Run(c, RunOpts{})
			v := Validate(c, tr, VOpts{ValidSigs: true})
			l := CaseLabels(c, v)
			nt := l["invoke-ran>=3"] && countTrue(l, "depth>=2", "has-decorator", "has-group-param", "has-named-param", "has-optional", "has-export", "has-as", "nested-in-object", "nested-out-object") >= 2
			st.Record(c, nt, l)
			st.Count("zone_skipped_invokes", v.ZoneSkips)
			return failFrom(v.First(append(commonClauses,
				CProvSingle, CFromNowhere, CZeroAvailable, CZeroRequired, CGroupForeign, CGroupMultiset, CInvokedOnce, CUnregisteredRan, CBadExec, CPoisoned, CRootCause, CZeroBehindBrokenDeco)...))
		},
	})
}

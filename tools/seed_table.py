#!/usr/bin/env python3
"""Writes /verif/seeded/README.md from the meta.json files."""
import json, os, glob
ROOT = os.path.dirname(os.path.dirname(os.path.abspath(__file__)))
rows = []
for mp in sorted(glob.glob(os.path.join(ROOT, "seeded", "*", "meta.json"))):
    m = json.load(open(mp))
    sid = m["id"]
    notes = os.path.join(os.path.dirname(mp), "notes.md")
    what = m.get("summary", "")
    rows.append((sid, m.get("breaks_property", ""), "yes" if m.get("confirmed") else "NO", what,
                 (", ".join(m.get("detected_by", [])) or "-") + (" (not counted: see meta.json)" if m.get("not_counted") else ""), m.get("needs", "")))
out = ["# Seeded changes (sensitivity experiments)\n",
       "Each directory holds one change to uber-go/dig that breaks a listed property while the\n"
       "library still compiles and its own test-suite (766 stable tests) stays green:\n"
       "`patch.diff` (applies to /repo HEAD), `demo_test.go` (a test that fails with the change and\n"
       "passes without it), `notes.md` (the author's description), `meta.json` (which property it\n"
       "breaks, what it needs in order to manifest, my independent confirmation, and which checks\n"
       "detect it at the quick tier with VERIF_SEED=1), `found/` (one shrunk replay per detecting check).\n"
       "Authors were fresh sub-agents that saw only the property text and a scratch worktree of /repo —\n"
       "nothing from /verif. `S-Cxx-a` = first round, `S-Cxx-b` = second round (told only which idea\n"
       "was already taken). None of these changes is ever committed to /repo.\n\n",
       "| seed | breaks | confirmed | change | needs to manifest | detected by (quick tier) |\n|---|---|---|---|---|---|\n"]
for sid, prop, conf, what, det, needs in rows:
    out.append(f"| {sid} | {prop} | {conf} | {what} | {needs} | {det} |\n")
open(os.path.join(ROOT, "seeded", "README.md"), "w").write("".join(out))
print("rows", len(rows))

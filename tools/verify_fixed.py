#!/usr/bin/env python3
"""Development aid: for every 'fixed' entry of known_findings.json, check out
the parent of its (first) fix commit into a scratch worktree under /tmp and
confirm that the entry's replay FAILS there (and passes on /repo)."""
import json, os, subprocess, sys, shutil
ROOT = os.path.dirname(os.path.dirname(os.path.abspath(__file__)))
kf = json.load(open(os.path.join(ROOT, "known_findings.json")))["findings"]
ok = True
for e in kf:
    if e["status"] != "fixed":
        continue
    commit = e["commit"].split()[0]
    wt = f"/tmp/verif-wt-{commit}"
    subprocess.run(["git", "-C", "/repo", "worktree", "remove", "--force", wt], capture_output=True)
    subprocess.run(["git", "-C", "/repo", "worktree", "add", "--detach", wt, commit + "^"], check=True, capture_output=True)
    try:
        prop = e["properties"][0]
        env = dict(os.environ, VERIF_REPO=wt)
        p = subprocess.run([os.path.join(ROOT, "check"), prop, "--replay", os.path.join(ROOT, e["repro"])], env=env, capture_output=True, text=True)
        before = p.returncode
        p2 = subprocess.run([os.path.join(ROOT, "check"), prop, "--replay", os.path.join(ROOT, e["repro"])], capture_output=True, text=True)
        after = p2.returncode
        status = "OK" if (before == 1 and after == 0) else "PROBLEM"
        if status != "OK":
            ok = False
        print(f"{status} {e['id']} {prop} {e['repro']}: before-fix rc={before} after-fix rc={after}")
        if status != "OK":
            print(p.stdout[-1500:])
    finally:
        subprocess.run(["git", "-C", "/repo", "worktree", "remove", "--force", wt], capture_output=True)
        shutil.rmtree(wt, ignore_errors=True)
sys.exit(0 if ok else 1)

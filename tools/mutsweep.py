#!/usr/bin/env python3
"""Systematic mutation sweep (development aid; complements the agent-written seeds of seeded/).

  mutsweep.py enum                      list the mutants                -> .build/mutsweep/mutants.json
  mutsweep.py suite [workers]           which mutants survive dig's own test suite
  mutsweep.py checks [lo hi]            run every check (reduced budget: one shard of the quick tier)
                                        against each suite survivor     -> .build/mutsweep/results.json
  mutsweep.py full <mutant-id> <Cxx..>  full quick tier of the named checks against one mutant
  mutsweep.py report                    -> seeded/mutsweep.json (committed summary)

Mutants are single-token / single-statement textual changes of dig's non-test sources, made in
scratch worktrees of /repo under /tmp/mutsweep (removed afterwards). Nothing is ever applied to /repo.
"""
import json, os, re, shutil, subprocess, sys, time, concurrent.futures as cf

ROOT = os.path.dirname(os.path.dirname(os.path.abspath(__file__)))
WORK = os.path.join(ROOT, ".build", "mutsweep")
TMP = "/tmp/mutsweep"
ENV = dict(os.environ, GOFLAGS="-mod=mod", GOPROXY="off", GOSUMDB="off", GOTOOLCHAIN="local")
FILES = ["callback.go", "constructor.go", "container.go", "cycle_error.go", "decorate.go", "error.go", "graph.go",
         "group.go", "inout.go", "invoke.go", "param.go", "provide.go", "result.go", "scope.go", "visualize.go",
         "internal/graph/graph.go", "internal/dot/graph.go", "internal/digreflect/func.go"]
PROPS = [f"C{i:02d}" for i in range(1, 21)]


def sh(cmd, cwd=None, env=None, timeout=None):
    return subprocess.run(cmd, cwd=cwd, env=env or ENV, capture_output=True, text=True, timeout=timeout)


def strip_strings(line):
    # blank out string / rune literals and trailing comments so operators inside them are not mutated
    out, i, n = [], 0, len(line)
    while i < n:
        c = line[i]
        if c in "\"`'":
            j = i + 1
            while j < n and line[j] != c:
                j += 2 if line[j] == "\\" and c != "`" else 1
            out.append(c + " " * max(0, j - i - 1) + (c if j < n else ""))
            i = j + 1
            continue
        if line.startswith("//", i):
            out.append(" " * (n - i))
            break
        out.append(c)
        i += 1
    return "".join(out)[:n].ljust(n)


def mutations(line):
    """yield (op, newline) for one source line"""
    code = strip_strings(line)
    s = code.strip()
    if not s or s.startswith("//"):
        return
    # relational / logical operator swaps (every occurrence separately)
    swaps = [("==", "!="), ("!=", "=="), ("&&", "||"), ("||", "&&"), ("<=", "<"), (">=", ">")]
    for a, b in swaps:
        for m in re.finditer(re.escape(a), code):
            yield f"{a}->{b}", line[:m.start()] + b + line[m.end():]
    for m in re.finditer(r"(?<![<\-=!>:])([<>])(?![<>=\-])", code):
        if "chan" in code or "<-" in code:
            continue
        yield f"{m.group(1)}->{m.group(1)}=", line[:m.start()] + m.group(1) + "=" + line[m.end():]
    # negate an if condition
    m = re.match(r"^(\s*(?:\}\s*else\s+)?if\s+)(.*)(\s*\{\s*)$", code)
    if m:
        head, cond, tail = m.group(1), line[m.start(2):m.end(2)], m.group(3)
        ccode = code[m.start(2):m.end(2)]
        k = ccode.rfind(";")
        init, c = (cond[:k + 1] + " ", cond[k + 1:].strip()) if k >= 0 else ("", cond.strip())
        yield "if-negate", f"{line[:m.end(1)]}{init}!({c}){tail}"
        yield "if-false", f"{line[:m.end(1)]}{init}false && ({c}){tail}"
        yield "if-true", f"{line[:m.end(1)]}{init}true || ({c}){tail}"
    if re.match(r"^\s*continue\s*$", code):
        yield "continue->break", line.replace("continue", "break")
    if re.match(r"^\s*break\s*$", code):
        yield "break->continue", line.replace("break", "continue")
    for m in re.finditer(r"\btrue\b", code):
        yield "true->false", line[:m.start()] + "false" + line[m.end():]
    for m in re.finditer(r"\bfalse\b", code):
        yield "false->true", line[:m.start()] + "true" + line[m.end():]
    for m in re.finditer(r"([+-]) ?1\b(?!\.)", code):
        yield "±1->0", line[:m.start()] + m.group(1) + "0" + line[m.end():]
    for m in re.finditer(r"\[1:\]", code):
        yield "[1:]->[0:]", line[:m.start()] + "[0:]" + line[m.end():]
    for m in re.finditer(r"\[:1\]", code):
        yield "[:1]->[:0]", line[:m.start()] + "[:0]" + line[m.end():]
    # statement deletion: single-line assignments, calls, defers, increments
    if (re.match(r"^\s*[\w\.\[\]\(\)\*]+(\[[^\]]*\])?\s*(=|\+=|-=|\+\+|--)[^=]", code) or
            re.match(r"^\s*(defer\s+)?[\w\.]+\(.*\)\s*$", code) or re.match(r"^\s*delete\(", code)) \
            and not s.endswith("{") and not s.endswith("(") and not s.endswith(",") and ":=" not in code:
        yield "delete-stmt", re.match(r"^\s*", line).group(0) + "// (deleted)"
    # early return dropped / added
    if re.match(r"^\s*return\s*$", code):
        yield "delete-return", re.match(r"^\s*", line).group(0) + "// (return deleted)"


def enum():
    os.makedirs(WORK, exist_ok=True)
    muts = []
    for f in FILES:
        lines = open(os.path.join("/repo", f)).read().split("\n")
        depth_skip = False
        for i, line in enumerate(lines):
            seen = set()
            for op, new in mutations(line):
                if new == line or new in seen:
                    continue
                seen.add(new)
                muts.append(dict(id=f"m{len(muts):04d}", file=f, line=i + 1, op=op, old=line, new=new))
    json.dump(muts, open(os.path.join(WORK, "mutants.json"), "w"), indent=0)
    print(len(muts), "mutants")
    by = {}
    for m in muts:
        by[m["op"]] = by.get(m["op"], 0) + 1
    print(by)


def worktree(k):
    wt = f"{TMP}/w{k}"
    if not os.path.isdir(wt):
        os.makedirs(TMP, exist_ok=True)
        sh(["git", "-C", "/repo", "worktree", "add", "--detach", wt, "HEAD"])
    sh(["git", "checkout", "--", "."], cwd=wt)
    return wt


def apply(wt, m):
    p = os.path.join(wt, m["file"])
    lines = open(p).read().split("\n")
    assert lines[m["line"] - 1] == m["old"], (m["id"], "source changed")
    lines[m["line"] - 1] = m["new"]
    open(p, "w").write("\n".join(lines))


def suite_one(args):
    k, m = args
    wt = f"{TMP}/w{k}"
    sh(["git", "checkout", "--", "."], cwd=wt)
    apply(wt, m)
    b = sh(["go", "build", "./..."], cwd=wt)
    if b.returncode != 0:
        return m["id"], "nocompile"
    v = sh(["go", "vet", "."], cwd=wt)
    if v.returncode != 0:
        return m["id"], "novet"
    try:
        t = sh(["go", "test", "-vet=off", "-count=1", "-failfast", "-timeout", "120s", "-skip", "^TestProvideLocation$", "./..."], cwd=wt, timeout=200)
    except subprocess.TimeoutExpired:
        return m["id"], "killed-timeout"
    return m["id"], "survived" if t.returncode == 0 else "killed"


def suite(workers):
    muts = json.load(open(os.path.join(WORK, "mutants.json")))
    sp = os.path.join(WORK, "suite.json")
    st = json.load(open(sp)) if os.path.exists(sp) else {}
    todo = [m for m in muts if m["id"] not in st]
    for k in range(workers):
        worktree(k)
    # static partition: worker k handles its own slice sequentially in its own worktree
    def run_slice(k):
        for m in todo[k::workers]:
            yield suite_one((k, m))
    with cf.ThreadPoolExecutor(workers) as ex:
        def drain(k):
            res = []
            for r in run_slice(k):
                res.append(r)
                st[r[0]] = r[1]
                if len(st) % 50 == 0:
                    json.dump(st, open(sp, "w"))
                    print(len(st), "/", len(muts), flush=True)
            return res
        list(ex.map(drain, range(workers)))
    json.dump(st, open(sp, "w"))
    c = {}
    for v in st.values():
        c[v] = c.get(v, 0) + 1
    print(c)
    cleanup(workers)


def cleanup(n=64):
    for k in range(n):
        wt = f"{TMP}/w{k}"
        if os.path.isdir(wt):
            sh(["git", "-C", "/repo", "worktree", "remove", "--force", wt])
    sh(["git", "-C", "/repo", "worktree", "prune"])


def plan_one_shard(p):
    sys.path.insert(0, ROOT)
    import driver
    sh_, n = driver.PLAN[p]["q"]
    return ["--shards", "1", "--checks", str(n // sh_)]


def run_checks(m, props, extra, par):
    """apply mutant in worktree w0, build the harness once, run the named checks; return {prop: [rc, first message]}"""
    wt = worktree(0)
    apply(wt, m)
    outdir = os.path.join(WORK, "out." + m["id"])
    shutil.rmtree(outdir, ignore_errors=True)
    os.makedirs(outdir)
    binp = os.path.join(outdir, "h.test")
    env = dict(ENV, VERIF_REPO=wt, VERIF_KEEP_BINARY=binp, VERIF_OUT=outdir, VERIF_SEED="1")
    # first call builds the binary
    res = {}

    def one(p):
        t0 = time.time()
        try:
            r = sh([os.path.join(ROOT, "check"), p] + (plan_one_shard(p) if extra == "one-shard" else extra), cwd=ROOT, env=env, timeout=1500)
        except subprocess.TimeoutExpired:
            return p, [2, "timeout", 1500]
        msg = ""
        for l in r.stdout.splitlines():
            if "VIOLATION" in l:
                break
            if l.strip().startswith("[") or "regression of fixed" in l:
                msg = l.strip()[:160]
        return p, [r.returncode, msg, round(time.time() - t0, 1)]
    p0, r0 = one(props[0])
    res[p0] = r0
    with cf.ThreadPoolExecutor(par) as ex:
        for p, r in ex.map(one, props[1:]):
            res[p] = r
    shutil.rmtree(outdir, ignore_errors=True)
    sh(["git", "checkout", "--", "."], cwd=wt)
    return res


def checks(lo, hi):
    muts = {m["id"]: m for m in json.load(open(os.path.join(WORK, "mutants.json")))}
    st = json.load(open(os.path.join(WORK, "suite.json")))
    rp = os.path.join(WORK, "results.json")
    res = json.load(open(rp)) if os.path.exists(rp) else {}
    surv = sorted(i for i, v in st.items() if v == "survived")[lo:hi]
    for i in surv:
        if i in res:
            continue
        m = muts[i]
        r = run_checks(m, PROPS, "one-shard", 10)
        res[i] = r
        json.dump(res, open(rp, "w"), indent=0)
        det = [p for p, v in r.items() if v[0] == 1]
        inc = [p for p, v in r.items() if v[0] not in (0, 1)]
        print(i, m["file"], m["line"], m["op"], "DETECTED by " + ",".join(det) if det else "MISSED", ("inconclusive " + ",".join(inc)) if inc else "", flush=True)
    cleanup(1)


def report():
    muts = json.load(open(os.path.join(WORK, "mutants.json")))
    st = json.load(open(os.path.join(WORK, "suite.json")))
    res = json.load(open(os.path.join(WORK, "results.json")))
    # targeted runs at the full quick budget (mutsweep.py full ...), recorded by hand in full.json
    fullp = os.path.join(WORK, "full.json")
    full = json.load(open(fullp)) if os.path.exists(fullp) else {}
    tri = os.path.join(ROOT, "seeded", "mutsweep_triage.json")
    triage = json.load(open(tri)) if os.path.exists(tri) else {}
    c = {}
    for v in st.values():
        c[v] = c.get(v, 0) + 1
    rows = []
    for m in muts:
        if st.get(m["id"]) != "survived":
            continue
        r = res.get(m["id"])
        key = f"{m['file']}:{m['line']}:{m['op']}:{m['new'].strip()}"
        rows.append(dict(id=m["id"], file=m["file"], line=m["line"], op=m["op"], old=m["old"].strip(), new=m["new"].strip(),
                         detected_by_reduced_budget=sorted(p for p, v in (r or {}).items() if v[0] == 1) if r else None,
                         detected_by_full_quick=sorted(p for p, v in (full.get(m["id"]) or {}).items() if v[0] == 1) or None,
                         triage=triage.get(key)))
    out = dict(generated_by="tools/mutsweep.py (reduced budget = one shard of the quick tier of every check; selected mutants again at the full quick tier)", dig_commit=sh(["git", "-C", "/repo", "rev-parse", "HEAD"]).stdout.strip(),
               mutants=len(muts), suite=c, survivors=rows)
    json.dump(out, open(os.path.join(ROOT, "seeded", "mutsweep.json"), "w"), indent=1)
    det = sum(1 for r in rows if r["detected_by_reduced_budget"] or r["detected_by_full_quick"])
    eq = sum(1 for r in rows if not (r["detected_by_reduced_budget"] or r["detected_by_full_quick"]) and r["triage"])
    out["summary"] = dict(suite_survivors=len(rows), detected=det, triaged_equivalent_or_outside_the_properties=eq, open=len(rows) - det - eq)
    json.dump(out, open(os.path.join(ROOT, "seeded", "mutsweep.json"), "w"), indent=1)
    print(f"mutants {len(muts)} {c}; suite survivors {len(rows)}, detected by some check {det}, triaged {eq}, open {len(rows)-det-eq}")


if __name__ == "__main__":
    cmd = sys.argv[1]
    if cmd == "enum":
        enum()
    elif cmd == "suite":
        suite(int(sys.argv[2]) if len(sys.argv) > 2 else 6)
    elif cmd == "checks":
        lo = int(sys.argv[2]) if len(sys.argv) > 2 else 0
        hi = int(sys.argv[3]) if len(sys.argv) > 3 else None
        checks(lo, hi)
    elif cmd == "full":
        muts = {m["id"]: m for m in json.load(open(os.path.join(WORK, "mutants.json")))}
        r = run_checks(muts[sys.argv[2]], sys.argv[3:], [], 2)
        print(json.dumps(r, indent=1))
        cleanup(1)
    elif cmd == "report":
        report()
    elif cmd == "cleanup":
        cleanup()

#!/usr/bin/env python3
"""Generates /verif/harness/bank_gen.go: a bank of declared closure literals
with distinct code pointers (dig derives constructor IDs, callback names and
DOT clusters from the code pointer; every reflect.MakeFunc value shares one).
Deterministic: fixed PRNG seed. Run once; the output is committed."""
import random, json
R = random.Random(20260928)
TYPES = ["T0", "T1", "T2", "T3", "I0"]
GO = {"T0": "*T0", "T1": "*T1", "T2": "*T2", "T3": "*T3", "I0": "I0"}
IMPL = {"I0": "T1"}
NAMES = ["", "", "a"]
structs = []   # (name, kind, fields[(goType, tag)])
entries = []

def tag(parts):
    return " ".join(parts)

def mk_params(n, allow_group=True):
    """returns (IR params, go param list, struct decls)"""
    leaves = []
    for _ in range(n):
        r = R.random()
        t = R.choice(TYPES)
        if allow_group and r < 0.18:
            leaves.append(dict(t=t, group="g", soft=R.random() < 0.25))
        elif r < 0.36:
            leaves.append(dict(t=t, name="a"))
        elif r < 0.5:
            leaves.append(dict(t=t, opt=True, **({"name": "a"} if R.random() < 0.3 else {})))
        else:
            leaves.append(dict(t=t))
    return leaves

def needs_obj(l):
    return "group" in l or "name" in l or l.get("opt")

def encode_params(idx, leaves):
    ir, gotypes = [], []
    obj = []
    for l in leaves:
        if needs_obj(l) or R.random() < 0.25:
            obj.append(l)
        else:
            ir.append(dict(t=l["t"]))
            gotypes.append(GO[l["t"]])
    if obj:
        # optional nesting: split into outer + inner
        sname = f"bankIn{idx}"
        if len(obj) >= 2 and R.random() < 0.4:
            inner = obj[len(obj)//2:]
            outer = obj[:len(obj)//2]
            iname = f"bankIn{idx}n"
            structs.append((iname, "In", [field(l) for l in inner]))
            structs.append((sname, "In", [field(l) for l in outer] + [(iname, "")]))
            ir_obj = [pleaf(l) for l in outer] + [dict(isobj=True, obj=[pleaf(l) for l in inner])]
        else:
            structs.append((sname, "In", [field(l) for l in obj]))
            ir_obj = [pleaf(l) for l in obj]
        pos = R.randrange(len(ir) + 1)
        ir.insert(pos, dict(isobj=True, obj=ir_obj))
        gotypes.insert(pos, sname)
    return ir, gotypes

def pleaf(l):
    d = dict(t=l["t"])
    for k in ("name", "opt", "group", "soft"):
        if l.get(k):
            d[k] = l[k]
    return d

def field(l):
    gt = GO[l["t"]]
    parts = []
    if l.get("name"):
        parts.append(f'name:\\"{l["name"]}\\"')
    if l.get("opt"):
        parts.append('optional:\\"true\\"')
    if l.get("group"):
        gt = "[]" + gt
        g = l["group"] + (",soft" if l.get("soft") else "")
        parts.append(f'group:\\"{g}\\"')
    return (gt, tag(parts))

def rfield(l):
    gt = GO[l["t"]]
    parts = []
    if l.get("name"):
        parts.append(f'name:\\"{l["name"]}\\"')
    if l.get("group"):
        g = l["group"] + (",flatten" if l.get("flatten") else "")
        if l.get("flatten") or l.get("sl"):
            gt = "[]" + gt
        parts.append(f'group:\\"{g}\\"')
    return (gt, tag(parts))

def rleaf(l):
    d = dict(t=l["t"])
    if l["t"] in IMPL:
        d["impl"] = IMPL[l["t"]]
    for k in ("name", "group", "flatten", "n", "sl"):
        if l.get(k):
            d[k] = l[k]
    return d

def mk_results(idx, n, deco=False):
    leaves = []
    for _ in range(n):
        t = R.choice(TYPES)
        r = R.random()
        if r < 0.2 and not deco:
            l = dict(t=t, group="g")
            if R.random() < 0.3:
                l["flatten"] = True
                l["n"] = R.randrange(3)
            leaves.append(l)
        elif r < 0.4:
            leaves.append(dict(t=t, name="a"))
        else:
            leaves.append(dict(t=t))
    ir, gotypes, obj = [], [], []
    for l in leaves:
        if "group" in l or "name" in l or R.random() < 0.2:
            obj.append(l)
        else:
            ir.append(rleaf(l))
            gotypes.append(GO[l["t"]])
    if obj:
        sname = f"bankOut{idx}"
        structs.append((sname, "Out", [rfield(l) for l in obj]))
        pos = R.randrange(len(ir) + 1)
        ir.insert(pos, dict(isobj=True, obj=[rleaf(l) for l in obj]))
        gotypes.insert(pos, sname)
    return ir, gotypes

def keyset_params(leaves):
    return {(l["t"], l.get("name", ""), l.get("group", "")) for l in leaves}

N_CTOR, N_DECO, N_INV = 140, 40, 50
for idx in range(N_CTOR + N_DECO + N_INV):
    kind = "ctor" if idx < N_CTOR else ("deco" if idx < N_CTOR + N_DECO else "invoke")
    if kind == "invoke":
        pl = mk_params(R.choice([1, 1, 2, 2, 3]))
        pir, pgo = encode_params(idx, pl)
        rir, rgo = [], []
    elif kind == "ctor":
        pl = mk_params(R.choice([0, 1, 1, 2, 2, 3]))
        pk = keyset_params(pl)
        # results never overlap the constructor's own parameters
        while True:
            mark = len(structs)
            rir, rgo = mk_results(idx, R.choice([1, 1, 1, 2]))
            rk = set()
            dup = [False]
            def walk(rs):
                for r in rs:
                    if r.get("isobj"):
                        walk(r["obj"])
                    else:
                        k = (r["t"], r.get("name", ""), r.get("group", ""))
                        if k in rk and not k[2]:
                            dup[0] = True
                        rk.add(k)
            walk(rir)
            if not (rk & pk) and not dup[0]:
                break
            del structs[mark:]
        pir, pgo = encode_params(idx, pl)
    else:
        # decorator-shaped: decorates 1-2 keys, mostly consuming them
        nk = R.choice([1, 1, 2])
        keys = []
        while len(keys) < nk:
            t = R.choice(TYPES)
            r = R.random()
            k = dict(t=t, group="g", sl=True, n=R.randrange(3)) if r < 0.25 else (dict(t=t, name="a") if r < 0.45 else dict(t=t))
            if all((k["t"], k.get("name"), k.get("group")) != (q["t"], q.get("name"), q.get("group")) for q in keys):
                keys.append(k)
        pl = []
        for k in keys:
            if R.random() < 0.8:
                pl.append({x: k[x] for x in ("t", "name", "group") if k.get(x)})
        pl += mk_params(R.choice([0, 0, 1]), allow_group=False)
        pir, pgo = encode_params(idx, pl)
        ir, gotypes, obj = [], [], []
        for k in keys:
            if "group" in k or "name" in k or R.random() < 0.2:
                obj.append(k)
            else:
                ir.append(rleaf(k)); gotypes.append(GO[k["t"]])
        if obj:
            sname = f"bankOut{idx}"
            structs.append((sname, "Out", [rfield(l) for l in obj]))
            pos = R.randrange(len(ir) + 1)
            ir.insert(pos, dict(isobj=True, obj=[rleaf(l) for l in obj]))
            gotypes.insert(pos, sname)
        rir, rgo = ir, gotypes
    err = R.random() < (0.5 if kind != "invoke" else 0.4)
    entries.append(dict(idx=idx, p=pir, r=rir, err=err, pgo=pgo, rgo=rgo, invoke=(kind == "invoke"), kind=kind))

# Extra entries appended later (indices >= 230, so earlier entries and every
# saved replay keep their meaning): constructor- and decorator-shaped
# functions whose error result is NOT the last result.
for idx in range(N_CTOR + N_DECO + N_INV, N_CTOR + N_DECO + N_INV + 30):
    kind = "ctor" if idx < N_CTOR + N_DECO + N_INV + 24 else "deco"
    if kind == "ctor":
        pl = mk_params(R.choice([0, 1, 1, 2]))
        pk = keyset_params(pl)
        while True:
            mark = len(structs)
            rir, rgo = mk_results(idx, R.choice([1, 2, 2]))
            rk = set()
            dup = [False]
            def walk(rs):
                for r in rs:
                    if r.get("isobj"):
                        walk(r["obj"])
                    else:
                        k = (r["t"], r.get("name", ""), r.get("group", ""))
                        if k in rk and not k[2]:
                            dup[0] = True
                        rk.add(k)
            walk(rir)
            if not (rk & pk) and not dup[0]:
                break
            del structs[mark:]
        pir, pgo = encode_params(idx, pl)
    else:
        t = R.choice(TYPES)
        k = dict(t=t)
        pl = [dict(t=t)] + mk_params(R.choice([0, 1]), allow_group=False)
        pir, pgo = encode_params(idx, pl)
        rir, rgo = [rleaf(k)], [GO[t]]
    errat = 1 + R.randrange(len(rgo))  # error placed before result errat-1 (never last)
    entries.append(dict(idx=idx, p=pir, r=rir, err=True, errat=errat, pgo=pgo, rgo=rgo, invoke=False, kind=kind))

# Appended later still (indices >= 260): functions with TWO error results (the
# second one last).
for idx in range(N_CTOR + N_DECO + N_INV + 30, N_CTOR + N_DECO + N_INV + 44):
    kind = "ctor" if idx < N_CTOR + N_DECO + N_INV + 40 else "deco"
    if kind == "ctor":
        pl = mk_params(R.choice([0, 1, 1, 2]))
        pk = keyset_params(pl)
        while True:
            mark = len(structs)
            rir, rgo = mk_results(idx, R.choice([1, 1, 2]))
            rk = set()
            dup = [False]
            def walk(rs):
                for r in rs:
                    if r.get("isobj"):
                        walk(r["obj"])
                    else:
                        k = (r["t"], r.get("name", ""), r.get("group", ""))
                        if k in rk and not k[2]:
                            dup[0] = True
                        rk.add(k)
            walk(rir)
            if not (rk & pk) and not dup[0]:
                break
            del structs[mark:]
        pir, pgo = encode_params(idx, pl)
    else:
        t = R.choice(TYPES)
        k = dict(t=t)
        pl = [dict(t=t)] + mk_params(R.choice([0, 1]), allow_group=False)
        pir, pgo = encode_params(idx, pl)
        rir, rgo = [rleaf(k)], [GO[t]]
    errat = 0
    if R.random() < 0.4:
        errat = 1 + R.randrange(len(rgo))
    entries.append(dict(idx=idx, p=pir, r=rir, err=True, errat=errat, err2=True, pgo=pgo, rgo=rgo, invoke=False, kind=kind))

# Appended later still (indices >= 274): constructors that feed SEVERAL values
# of one type into one group (two or three fields of one result object).
for idx in range(N_CTOR + N_DECO + N_INV + 44, N_CTOR + N_DECO + N_INV + 54):
    kind = "ctor"
    t = R.choice(TYPES)
    nmem = R.choice([2, 2, 3])
    pl = [l for l in mk_params(R.choice([0, 1, 1, 2])) if not (l["t"] == t and l.get("group") == "g")]
    pk = keyset_params(pl)
    obj = [dict(t=t, group="g") for _ in range(nmem)]
    extra = None
    if R.random() < 0.5:
        et = R.choice([x for x in TYPES if (x, "", "") not in pk])
        extra = dict(t=et)
    sname = f"bankOut{idx}"
    fields = list(obj)
    if extra is not None and R.random() < 0.5:
        fields.insert(R.randrange(len(fields) + 1), extra)
        extra = None
    structs.append((sname, "Out", [rfield(l) for l in fields]))
    rir, rgo = [dict(isobj=True, obj=[rleaf(l) for l in fields])], [sname]
    if extra is not None:
        pos = R.randrange(2)
        rir.insert(pos, rleaf(extra)); rgo.insert(pos, GO[extra["t"]])
    pir, pgo = encode_params(idx, pl)
    entries.append(dict(idx=idx, p=pir, r=rir, err=R.random() < 0.8, pgo=pgo, rgo=rgo, invoke=False, kind=kind))

# Appended later still (indices >= 284): functions whose error result is
# declared as the concrete type *HErrPtr (such a function always fails).
for idx in range(N_CTOR + N_DECO + N_INV + 54, N_CTOR + N_DECO + N_INV + 62):
    kind = "ctor" if idx < N_CTOR + N_DECO + N_INV + 60 else "deco"
    if kind == "ctor":
        pl = mk_params(R.choice([0, 1, 1, 2]))
        pk = keyset_params(pl)
        while True:
            mark = len(structs)
            rir, rgo = mk_results(idx, R.choice([1, 1, 2]))
            rk = set()
            dup = [False]
            def walk(rs):
                for r in rs:
                    if r.get("isobj"):
                        walk(r["obj"])
                    else:
                        k = (r["t"], r.get("name", ""), r.get("group", ""))
                        if k in rk and not k[2]:
                            dup[0] = True
                        rk.add(k)
            walk(rir)
            if not (rk & pk) and not dup[0]:
                break
            del structs[mark:]
        pir, pgo = encode_params(idx, pl)
    else:
        t = R.choice(TYPES)
        k = dict(t=t)
        pl = [dict(t=t)] + mk_params(R.choice([0, 1]), allow_group=False)
        pir, pgo = encode_params(idx, pl)
        rir, rgo = [rleaf(k)], [GO[t]]
    entries.append(dict(idx=idx, p=pir, r=rir, err=True, errt="ptr", pgo=pgo, rgo=rgo, invoke=False, kind=kind))

out = []
out.append("// Code generated by /verif/tools/genbank.py; DO NOT EDIT.\n")
out.append("package harness\n")
out.append('import (\n\t"reflect"\n\n\t"go.uber.org/dig"\n)\n')
for name, kind, fields in structs:
    out.append(f"type {name} struct {{\n\tdig.{kind}\n")
    for i, (gt, tg) in enumerate(fields):
        t = f' `{tg}`'.replace('\\"', '"') if tg else ""
        out.append(f"\tF{i} {gt}{t}\n")
    out.append("}\n")
out.append("\nvar _ = dig.In{}\n\n")
for e in entries:
    i = e["idx"]
    args = ", ".join(f"a{k} {t}" for k, t in enumerate(e["pgo"]))
    rets = list(e["rgo"]) + ((["*HErrPtr"] if e.get("errt") == "ptr" else ["error"]) if e["err"] else [])
    if e.get("errat"):
        rets = list(e["rgo"])
        rets.insert(e["errat"] - 1, "error")
    if e.get("err2"):
        rets.append("error")
    retsig = ""
    if len(rets) == 1:
        retsig = " " + rets[0]
    elif rets:
        retsig = " (" + ", ".join(rets) + ")"
    vals = ", ".join(f"reflect.ValueOf(&a{k}).Elem()" for k in range(len(e["pgo"])))
    body = f"\t\tout := rt.call(f, []reflect.Value{{{vals}}})\n"
    if rets:
        conv = []
        for k, t in enumerate(rets):
            if t == "error":
                body += f"\t\te{k}, _ := out[{k}].Interface().(error)\n"
                conv.append(f"e{k}")
            elif t == "*HErrPtr":
                body += f"\t\te{k}, _ := out[{k}].Interface().(*HErrPtr)\n"
                conv.append(f"e{k}")
            elif t == "I0":
                body += f"\t\tv{k}, _ := out[{k}].Interface().(I0)\n"
                conv.append(f"v{k}")
            else:
                conv.append(f"out[{k}].Interface().({t})")
        body += "\t\treturn " + ", ".join(conv) + "\n"
    else:
        body += "\t\t_ = out\n"
    out.append(f"func bank{i}(rt *RT, f *Fn) interface{{}} {{\n\treturn func({args}){retsig} {{\n{body}\t}}\n}}\n\n")
out.append("var bankFactories = []func(rt *RT, f *Fn) interface{}{\n")
for e in entries:
    out.append(f"\tbank{e['idx']},\n")
out.append("}\n\n")
specs = [dict(p=e["p"], r=e["r"], err=e["err"], errat=e.get("errat", 0), err2=bool(e.get("err2")), errt=e.get("errt", ""), invoke=e["invoke"], kind=e["kind"]) for e in entries]
out.append("// bankSpecsJSON describes the signature of every bank entry in IR form.\n")
out.append("const bankSpecsJSON = `" + json.dumps(specs) + "`\n")
open("/verif/harness/bank_gen.go", "w").write("".join(out))
print("entries", len(entries), "structs", len(structs))

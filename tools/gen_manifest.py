#!/usr/bin/env python3
"""Regenerates /verif/MANIFEST.json from the table below."""
import json, os
ROOT = os.path.dirname(os.path.dirname(os.path.abspath(__file__)))
props = [json.loads(l) for l in open(os.path.join(ROOT, "properties.jsonl"))]

# id -> (technique, design section, level text, level note)
MODEL_NOTE = "trusts the harness's registration model (written from the property statement and doc.go, not from dig's code), Go reflect (functions built with MakeFunc/StructOf), rapid; unspecified zones and known-finding patterns are excluded and counted in the evidence"
CLAIMED = {
 "C01": ("stateful history generation (rapid) + provenance-token log validated against a reference registration model", "§2 C01"),
 "C02": ("history generation with fault/retry plans + execution-log invariant (successful executions <= 1, token identity)", "§2 C02"),
 "C03": ("history generation with bystanders + execution-set bounds (mustRun <= executed <= mayRun) from the reference model", "§2 C03"),
 "C04": ("hole-injecting graph generation + availability model predicting verdict class and optional zero values", "§2 C04"),
 "C08": ("scope-tree history generation + nearest-wins visibility model on verdicts and provenance", "§2 C08"),
 "C09": ("tiny-universe collision generation + duplicate-rule model for Provide verdicts and key-exact availability", "§2 C09"),
 "C10": ("group-heavy history generation + exact multiset oracle over visible feeders", "§2 C10"),
 "C11": ("soft/hard group history generation + lower/upper bound oracle on soft slices and execution set", "§2 C11"),
 "C12": ("decorator-placement history generation + nearest-decorator model on provenance, verdicts and execution counts", "§2 C12"),
 "C05": ("exhaustive small-digraph enumeration + sampled digraphs against a Warshall reference (graph hook); generated cyclic histories judged against three graph readings, risky Invokes executed in a child process", "§2 C05"),
 "C06": ("differential testing: generated history with a rejected registration vs the same history without it on a fresh container", "§2 C06"),
 "C07": ("fault-plan injection over generated histories + poisoned-token / retry / root-cause invariants on the execution log", "§2 C07"),
 "C13": ("failure-source injection (error, panic, dig rejections) over generated histories + error identity/classification oracle", "§2 C13"),
 "C14": ("grammar-based hostile-input generation (values, signatures, tags, options) + no-panic and no-trace differential oracle", "§2 C14"),
 "C15": ("metamorphic testing: equivalent re-encodings of every function's signature must give the same verdicts, executions and key-wise wiring", "§2 C15"),
 "C16": ("metamorphic testing: permuted registration blocks, moved scope creations and toggled DeferAcyclicVerification must give the same verdicts and wiring", "§2 C16"),
 "C17": ("differential testing: DryRun container vs normal container on the same generated history", "§2 C17"),
 "C18": ("signature-grammar generation with pre-filled Info structs + model flattening oracle; function-bank histories for ID distinctness/stability", "§2 C18"),
 "C19": ("function-bank program generation + own DOT parser + structural comparison with the registration model; error graphs judged by a path-validity predicate; hostile names/types for syntax", "§2 C19"),
 "C20": ("fault-plan histories over a bank of declared functions with a mock clock + one-to-one callback/execution correspondence oracle", "§2 C20"),
}
LEVEL_TEXT = "exploration: generated-input search (rapid, sharded over 8-16 processes) against an explicit oracle; the property held on every generated history of the stated shapes and sizes. It never establishes absence; evidence reports evaluations, distinct non-trivial cases by the stated rule, class histogram and samples."

m = {
 "version": 1,
 "setup_cmd": "mkdir -p /verif/.build && cd /verif/harness && GOFLAGS=-mod=mod GOPROXY=off GOSUMDB=off GOTOOLCHAIN=local go test -c -tags verif -o /verif/.build/warm.test . && rm -f /verif/.build/warm.test",
 "hooks": {"guard": "verif (Go build tag; file /repo/verif_hooks.go)", "enable": "go test -tags verif (the harness module replaces go.uber.org/dig with /repo)",
           "baseline_off_cmd": "python3 /verif/tools/baseline_off.py", "source_commits": ["20227b5"], "add_only": True},
 "engines": [{"name": "harness", "path": "/verif/harness", "serves_properties": sorted(CLAIMED),
              "kind_free_text": "Go test binary: rapid generators -> history IR -> reflect.MakeFunc probes run against dig -> model / differential / metamorphic oracles; /verif/check builds it from /repo's working tree, replays saved cases, shards the generated search and writes the evidence"}],
 "checks": [], "not_applicable": [],
 "notes": "Approach and per-property oracles: DESIGN.md. Known findings: known_findings.json (status known -> KNOWN-FINDING line, status fixed -> regression replay).",
}
for p in props:
    pid = p["id"]
    if pid in CLAIMED:
        tech, ref = CLAIMED[pid]
        m["checks"].append({
            "property_id": pid,
            "quick_cmd": f"./check {pid} --tier quick",
            "thorough_cmd": f"./check {pid} --tier thorough",
            "evidence_file": f"/verif/evidence/{pid}.json",
            "replay_cmd_template": f"./check {pid} --replay {{path}}",
            "engine": "harness",
            "level_claimed": {"category": "exploration", "text": LEVEL_TEXT, "design_ref": ref},
            "level_note": MODEL_NOTE,
            "technique": "property-based testing: " + tech + "; thorough tier adds native coverage-guided fuzzing (go test -fuzz) of the same generator and oracle"})
    else:
        m["not_applicable"].append({"property_id": pid, "reason": "not claimed yet: its check is still being built (same technique: property-based testing / fuzzing)"})
json.dump(m, open(os.path.join(ROOT, "MANIFEST.json"), "w"), indent=1)
print("claimed:", len(m["checks"]), "not claimed:", len(m["not_applicable"]))

#!/bin/bash
# regression net for the checks themselves: every seeded change against its target property's quick check
# usage: tools/reseed_all.sh [suffix...]   (default: all rounds). Prints one line per seed.
cd "$(dirname "$0")/.."
for d in seeded/S-C*; do
  sid=$(basename $d); prop=$(echo $sid | cut -d- -f2)
  if [ $# -gt 0 ]; then ok=0; for s in "$@"; do [[ $sid == *-$s ]] && ok=1; done; [ $ok = 1 ] || continue; fi
  python3 tools/try_seed.py run $sid $prop 2>&1 | tail -1 | cut -c1-200
done

#!/bin/bash
# development aid: statement coverage of go.uber.org/dig reached by the generated histories of every check
# usage: tools/coverage.sh [checks-per-property]   -> build/cover/merged.out and a list of unreached blocks
cd "$(dirname "$0")/.."
export GOFLAGS=-mod=mod GOPROXY=off GOSUMDB=off GOTOOLCHAIN=local
N=${1:-3000}
out=.build/cover; rm -rf $out; mkdir -p $out
(cd harness && go test -c -tags verif -cover -coverpkg=go.uber.org/dig,go.uber.org/dig/internal/... -o ../$out/h.test .) || exit 2
for i in $(seq -w 1 20); do
  p=C$i
  ( cd harness && VERIF_PROP=$p VERIF_TIER=quick VERIF_SEED=1 VERIF_SHARD=0 VERIF_SHARDS=1 VERIF_STATS=../$out/stats.$p.json VERIF_FAILOUT=../$out/fail.$p.json TMPDIR=$PWD/../$out \
    ../$out/h.test -test.run '^TestProp$' -rapid.checks=$N -rapid.seed=1$i -rapid.nofailfile -test.timeout=600s -test.coverprofile=../$out/$p.out > ../$out/$p.log 2>&1 ) &
done
wait
python3 - "$out" <<'P'
import sys,glob,collections
out=sys.argv[1]
cov=collections.defaultdict(int); stm={}
for f in glob.glob(out+'/C*.out'):
    for l in open(f):
        if l.startswith('mode:'): continue
        loc,n,c=l.rsplit(' ',2)
        cov[loc]+=int(c); stm[loc]=int(n)
tot=sum(stm.values()); hit=sum(stm[l] for l in stm if cov[l]>0)
print(f"statements {tot} reached {hit} ({100.0*hit/tot:.1f}%)")
byfile=collections.defaultdict(list)
for l in stm:
    if cov[l]==0:
        f,r=l.split(':'); byfile[f].append(r)
for f in sorted(byfile):
    rs=sorted(byfile[f],key=lambda r:(int(r.split('.')[0]),))
    print(f, len(rs)); 
    for r in rs: print("   ",r)
P

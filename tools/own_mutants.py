#!/usr/bin/env python3
"""Sensitivity probes written by the harness author (NOT independent seeds):
textual mutations of dig taken from the 'Sensitivity' lists of DESIGN.md §2.
For each mutant: scratch worktree of /repo HEAD, apply, record whether dig's
own suite stays green, run the listed checks at the quick tier against it
(VERIF_REPO), record which detect it. Results: /verif/seeded/own_mutants.json.

  own_mutants.py [id ...]      (default: all)
"""
import json, os, shutil, subprocess, sys, time

ROOT = os.path.dirname(os.path.dirname(os.path.abspath(__file__)))
ENV = dict(os.environ, GOFLAGS="-mod=mod", GOPROXY="off", GOSUMDB="off", GOTOOLCHAIN="local")
OUT = os.path.join(ROOT, "seeded", "own_mutants.json")

# id, checks to run, file, old, new, description
M = [
 ("M01", ["C01", "C08"], "param.go", "\t\terr := n.Call(n.OrigScope())", "\t\terr := n.Call(c)",
  "providers are called with the consumer's scope instead of the scope they were provided to"),
 ("M02", ["C01", "C08", "C10"], "constructor.go", "\treceiver.Commit(n.s)", "\treceiver.Commit(n.origS)",
  "results committed to the providing scope instead of the home scope (exported constructors)"),
 ("M03", ["C02", "C10"], "param.go", "\t\t\tif err := n.Call(n.OrigScope()); err != nil {", "\t\t\tif cn, ok := n.(*constructorNode); ok {\n\t\t\t\tcn.called = false\n\t\t\t}\n\t\t\tif err := n.Call(n.OrigScope()); err != nil {",
  "group feeders are called again on every group request"),
 ("M04", ["C03", "C11"], "param.go", "\tif !pt.Soft {\n\t\tvar err error", "\tif true {\n\t\tvar err error",
  "soft groups trigger their providers"),
 ("M05", ["C04"], "param.go", "if errors.As(err, new(errMissingDependencies)) && ps.Optional {", "if (errors.As(err, new(errMissingDependencies)) || true) && ps.Optional {",
  "an optional parameter swallows any provider error"),
 ("M06", ["C04"], "param.go", "if errors.As(err, new(errMissingDependencies)) && ps.Optional {", "_ = errors.As\n\t\tif _, ok := err.(errMissingDependencies); ok && ps.Optional {",
  "optional forgives only a directly missing dependency, not a deep one"),
 ("M07", ["C05", "C06"], "provide.go", "\t\tif ok, cycle := graph.IsAcyclic(scope.gh); !ok {", "\t\tif ok, cycle := graph.IsAcyclic(scope.gh); !ok && scope == s {",
  "Provide checks only the target scope's graph for cycles"),
 ("M08", ["C05"], "invoke.go", "\tif !s.isVerifiedAcyclic {", "\tif false {",
  "Invoke-time cycle verification dropped"),
 ("M09", ["C06"], "provide.go", "\t\t\t\ts.gh.Rollback()", "\t\t\t\t_ = s.gh",
  "graph rollback dropped after a rejected Provide"),
 ("M10", ["C06", "C09"], "provide.go", "\t\t\tfor k, ops := range oldProviders {\n\t\t\t\ts.providers[k] = ops\n\t\t\t}", "\t\t\t_ = oldProviders",
  "provider map not restored after a cycle rejection"),
 ("M11", ["C07", "C02"], "constructor.go", "\treceiver := newStagingContainerWriter()\n\tresults := c.invoker()(reflect.ValueOf(n.ctor), args)", "\treceiver := newStagingContainerWriter()\n\tn.called = true\n\tresults := c.invoker()(reflect.ValueOf(n.ctor), args)",
  "constructor marked as called before its outcome is known"),
 ("M12", ["C08", "C01"], "scope.go", "\tfor s := s; s != nil; s = s.parentScope {\n\t\tscopes = append(scopes, s)\n\t}", "\tfor s := s; s != nil; s = s.parentScope {\n\t\tscopes = append(scopes, s)\n\t}\n\tif len(scopes) > 2 {\n\t\tscopes = append(scopes[:1], scopes[2:]...)\n\t}",
  "scope chain skips the direct parent when there are grandparents"),
 ("M13", ["C09"], "provide.go", "\t\tk := key{name: r.Name, t: r.Type}\n\n\t\tif err := cv.checkKey(k, path); err != nil {", "\t\tk := key{t: r.Type}\n\n\t\tif err := cv.checkKey(k, path); err != nil {",
  "duplicate check ignores the name"),
 ("M14", ["C09"], "result.go", "\treturn resultSingle{\n\t\tType: asTypes[0],\n\t\tName: opts.Name,\n\t\tAs:   asTypes[1:],\n\t}, nil", "\treturn resultSingle{\n\t\tType: t,\n\t\tName: opts.Name,\n\t\tAs:   asTypes,\n\t}, nil",
  "dig.As keeps the concrete type available as well"),
 ("M15", ["C10"], "param.go", "\t\titemCount += len(providers)\n\t\tfor _, n := range providers {", "\t\titemCount += len(providers)\n\t\tif itemCount > 0 && len(providers) == 0 {\n\t\t\tbreak\n\t\t}\n\t\tfor _, n := range providers {",
  "group providers: stop walking up after the first scope that had providers"),
 ("M16", ["C10"], "result.go", "\tfor i := 0; i < v.Len(); i++ {\n\t\tcw.submitGroupedValue(rt.Group, rt.Type, v.Index(i))\n\t}", "\tfor i := 0; i < v.Len(); i++ {\n\t\tcw.submitGroupedValue(rt.Group, rt.Type, v.Index(i))\n\t}\n\tif v.Len() > 2 {\n\t\tcw.submitGroupedValue(rt.Group, rt.Type, v.Index(0))\n\t}",
  "flatten submits the first element twice for slices longer than two"),
 ("M17", ["C11"], "param.go", "\t\tif p, ok := f.Param.(paramGroupedSlice); ok && p.Soft {\n\t\t\tsoftGroupsQueue = append(softGroupsQueue, f)\n\t\t\tcontinue\n\t\t}", "",
  "soft groups are built in declaration order"),
 ("M18", ["C12"], "param.go", "\tfor _, s := range stores {\n\t\tif d, found = s.getValueDecorator(ps.Name, ps.Type); !found {", "\tfor i := len(stores) - 1; i >= 0; i-- {\n\t\ts := stores[i]\n\t\tif d, found = s.getValueDecorator(ps.Name, ps.Type); !found {",
  "farthest decorator wins instead of the nearest"),
 ("M19", ["C12"], "decorate.go", "\t\tif _, ok := s.decorators[k]; ok || dup {", "\t\tif dup {",
  "a second decorator for a key silently replaces the first"),
 ("M20", ["C13", "C07"], "error.go", "func (e errArgumentsFailed) Unwrap() error { return e.Reason }", "func (e errArgumentsFailed) Unwrap() error { return nil }",
  "errArgumentsFailed no longer unwraps"),
 ("M21", ["C13"], "cycle_error.go", "\treturn errors.As(err, &errCycleDetected{})", "\tvar ii errInvalidInput\n\treturn errors.As(err, &errCycleDetected{}) || errors.As(err, &ii)",
  "IsCycleDetected also matches invalid-input errors"),
 ("M22", ["C13"], "invoke.go", "\t\tif err, _ := last.Interface().(error); err != nil {\n\t\t\treturn err\n\t\t}", "\t\tif err, _ := last.Interface().(error); err != nil {\n\t\t\treturn errArgumentsFailed{Func: digreflect.InspectFunc(function), Reason: err}\n\t\t}",
  "Invoke wraps the invoked function's error"),
 ("M23", ["C15"], "param.go", "\t\tnumArgs--", "\t\tif numArgs > 1 {\n\t\t\tnumArgs--\n\t\t}",
  "a variadic parameter is not dropped when it is the only parameter"),
 ("M24", ["C17"], "decorate.go", "\tresults := s.invoker()(reflect.ValueOf(n.dcor), args)", "\tresults := reflect.ValueOf(n.dcor).Call(args)",
  "decorators ignore the dry-run invoker"),
 ("M26", ["C18", "C19"], "param.go", "func (po paramObject) DotParam() []*dot.Param {\n\tvar types []*dot.Param\n\tfor _, field := range po.Fields {", "func (po paramObject) DotParam() []*dot.Param {\n\tvar types []*dot.Param\n\tfor _, field := range po.Fields {\n\t\tif _, nested := field.Param.(paramObject); nested {\n\t\t\tcontinue\n\t\t}",
  "introspection / visualization skip nested parameter objects"),
 ("M27", ["C19"], "visualize.go", "\t\tif p.Optional {\n\t\t\toptionalStyle = \" style=dashed\"\n\t\t}", "\t\tif !p.Optional && p.Name != \"\" {\n\t\t\toptionalStyle = \" style=dashed\"\n\t\t}",
  "dashed edges for named required dependencies instead of optional ones"),
 ("M28", ["C19"], "visualize.go", "\tfor _, cs := range s.childScopes {\n\t\tcs.addNodes(dg)\n\t}", "\tfor _, cs := range s.childScopes {\n\t\tif len(cs.childScopes) == 0 {\n\t\t\tcs.addNodes(dg)\n\t\t}\n\t}",
  "Visualize walks only leaf child scopes"),
 ("M29", ["C19"], "visualize.go", "\tdg.PruneSuccess()", "\t_ = dg",
  "successful constructors are not pruned from the error graph"),
 ("M30", ["C20"], "constructor.go", "\targs, err := n.paramList.BuildList(c)\n\tif err != nil {\n\t\treturn errArgumentsFailed{\n\t\t\tFunc:   n.location,\n\t\t\tReason: err,\n\t\t}\n\t}\n\n\tif n.callback != nil {\n\t\tstart := c.clock().Now()", "\tstart := c.clock().Now()\n\targs, err := n.paramList.BuildList(c)\n\tif err != nil {\n\t\treturn errArgumentsFailed{\n\t\t\tFunc:   n.location,\n\t\t\tReason: err,\n\t\t}\n\t}\n\n\tif n.callback != nil {",
  "callback Runtime includes the construction of the dependencies"),
 ("M31", ["C20"], "decorate.go", "\t\t\tn.callback(CallbackInfo{\n\t\t\t\tName:    fmt.Sprintf(\"%v.%v\", n.location.Package, n.location.Name),\n\t\t\t\tError:   err,", "\t\t\tif err != nil {\n\t\t\t\treturn\n\t\t\t}\n\t\t\tn.callback(CallbackInfo{\n\t\t\t\tName:    fmt.Sprintf(\"%v.%v\", n.location.Package, n.location.Name),\n\t\t\t\tError:   err,",
  "decorator callbacks are not called on failure"),
 ("M32", ["C16", "C05"], "scope.go", "\t\tcase *paramGroupedSlice:\n\t\t\t// value group nodes need their order in the child as well,\n\t\t\t// otherwise their edges point at node 0 of the child's graph.\n\t\t\tw.orders[child] = w.orders[s]", "\t\tcase *paramGroupedSlice:\n\t\t\t_ = w",
  "fix F4 reverted (group node orders not copied to late child scopes)"),
 ("M33", ["C14"], "provide.go", "\tif ctype == nil {\n\t\treturn newErrInvalidInput(\"can't provide an untyped nil\", nil)\n\t}", "",
  "nil check removed from Provide"),
 ("M34", ["C12", "C10"], "param.go", "\tfor i := len(stores) - 1; i >= 0; i-- {\n\t\tc := stores[i]\n\t\tif d, found := c.getGroupDecorator(pt.Group, pt.Type.Elem()); found {", "\tfor i := 0; i < len(stores); i++ {\n\t\tc := stores[i]\n\t\tif d, found := c.getGroupDecorator(pt.Group, pt.Type.Elem()); found {",
  "group decorators are called leaf-to-root"),
]


def sh(cmd, cwd=None, env=None, timeout=3600):
    p = subprocess.run(cmd, cwd=cwd, env=env or ENV, capture_output=True, text=True, timeout=timeout)
    return p.returncode, p.stdout + p.stderr


def main():
    want = set(sys.argv[1:])
    res = json.load(open(OUT)) if os.path.exists(OUT) else {}
    for mid, checks, fname, old, new, desc in M:
        if want and mid not in want:
            continue
        wt = f"/tmp/verif-own-{mid}"
        sh(["git", "-C", "/repo", "worktree", "remove", "--force", wt])
        shutil.rmtree(wt, ignore_errors=True)
        rc, out = sh(["git", "-C", "/repo", "worktree", "add", "--detach", wt, "HEAD"])
        assert rc == 0, out
        entry = {"id": mid, "description": desc, "file": fname, "checks": {}}
        try:
            path = os.path.join(wt, fname)
            src = open(path).read()
            if old not in src:
                entry["error"] = "snippet not found"
                print(mid, "SNIPPET NOT FOUND")
                res[mid] = entry
                continue
            open(path, "w").write(src.replace(old, new, 1))
            rc, out = sh(["go", "build", "./..."], cwd=wt)
            entry["builds"] = rc == 0
            if rc != 0:
                print(mid, "DOES NOT BUILD", out[-300:])
                res[mid] = entry
                continue
            rc, out = sh(["python3", os.path.join(ROOT, "tools", "baseline_off.py"), wt])
            entry["suite_green"] = rc == 0
            env = dict(ENV, VERIF_REPO=wt, VERIF_OUT=f"/tmp/verif-own-out-{mid}")
            for c in checks:
                t0 = time.time()
                rc, out = sh([os.path.join(ROOT, "check"), c], cwd=ROOT, env=env)
                msg = ""
                for line in out.splitlines():
                    line = line.strip()
                    if line.startswith("[") and "]" in line and not line.startswith("[rapid]"):
                        msg = line[:200]
                        break
                entry["checks"][c] = {"detected": rc == 1 and "VIOLATION property=" in out, "rc": rc, "seconds": round(time.time() - t0, 1), "first_message": msg}
                print(mid, c, "DETECTED" if rc == 1 else ("inconclusive" if rc == 2 else "MISSED"), f"suite_green={entry['suite_green']}", msg[:120], flush=True)
        finally:
            sh(["git", "-C", "/repo", "worktree", "remove", "--force", wt])
            shutil.rmtree(wt, ignore_errors=True)
            shutil.rmtree(f"/tmp/verif-own-out-{mid}", ignore_errors=True)
        res[mid] = entry
        json.dump(res, open(OUT, "w"), indent=1)


if __name__ == "__main__":
    main()

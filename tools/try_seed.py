#!/usr/bin/env python3
"""Evaluate a seeded change (a patch that breaks a property while the dig
test-suite stays green).

  try_seed.py confirm <src_dir> <seed_id> <property>   # independent confirmation + copy into /verif/seeded/<seed_id>/
  try_seed.py run <seed_id> [props...] [--checks N]     # apply to /repo, run checks, undo, record in meta.json

confirm: in a fresh scratch worktree of /repo: the patch applies, builds, the
baseline suite (766 stable tests) still passes, the demonstration test fails
with the patch and passes without it.
"""
import json, os, shutil, subprocess, sys, time

ROOT = os.path.dirname(os.path.dirname(os.path.abspath(__file__)))
SEEDED = os.path.join(ROOT, "seeded")
ENV = dict(os.environ, GOFLAGS="-mod=mod", GOPROXY="off", GOSUMDB="off", GOTOOLCHAIN="local")
ALL = [f"C{i:02d}" for i in range(1, 21)]
MATRIX = False


def sh(cmd, cwd=None, timeout=1800):
    p = subprocess.run(cmd, cwd=cwd, env=ENV, capture_output=True, text=True, timeout=timeout)
    return p.returncode, p.stdout + p.stderr


def confirm(src, sid, prop):
    dst = os.path.join(SEEDED, sid)
    os.makedirs(dst, exist_ok=True)
    for name in ("patch.diff", "demo_test.go", "notes.md"):
        shutil.copy(os.path.join(src, name), os.path.join(dst, name))
    wt = f"/tmp/verif-confirm-{sid}"
    sh(["git", "-C", "/repo", "worktree", "remove", "--force", wt])
    shutil.rmtree(wt, ignore_errors=True)
    rc, out = sh(["git", "-C", "/repo", "worktree", "add", "--detach", wt, "HEAD"])
    assert rc == 0, out
    res = {}
    try:
        rc, out = sh(["git", "apply", os.path.join(dst, "patch.diff")], cwd=wt)
        res["patch_applies"] = rc == 0
        if rc != 0:
            print(out)
        rc, out = sh(["go", "build", "./..."], cwd=wt)
        res["builds"] = rc == 0
        rc, out = sh(["go", "vet", "."], cwd=wt)
        res["vet_ok"] = rc == 0
        rc, out = sh(["python3", os.path.join(ROOT, "tools", "baseline_off.py"), wt])
        res["baseline_suite_green_with_patch"] = rc == 0
        res["baseline_summary"] = out.strip().splitlines()[0] if out.strip() else ""
        shutil.copy(os.path.join(dst, "demo_test.go"), os.path.join(wt, "seeded_demo_test.go"))
        rc, out = sh(["go", "test", "-vet=off", "-count=1", "-run", "TestSeededDemo", "."], cwd=wt)
        res["demo_fails_with_patch"] = rc != 0 and "FAIL" in out
        sh(["git", "apply", "-R", os.path.join(dst, "patch.diff")], cwd=wt)
        rc, out = sh(["go", "test", "-vet=off", "-count=1", "-run", "TestSeededDemo", "."], cwd=wt)
        res["demo_passes_without_patch"] = rc == 0
    finally:
        sh(["git", "-C", "/repo", "worktree", "remove", "--force", wt])
        shutil.rmtree(wt, ignore_errors=True)
    ok = all(res.get(k) for k in ("patch_applies", "builds", "baseline_suite_green_with_patch", "demo_fails_with_patch", "demo_passes_without_patch"))
    meta_path = os.path.join(dst, "meta.json")
    meta = json.load(open(meta_path)) if os.path.exists(meta_path) else {}
    meta.update({"id": sid, "breaks_property": prop, "confirmed": ok, "confirmation": res,
                 "confirmed_by": "tools/try_seed.py confirm (fresh scratch worktree of /repo HEAD): git apply; go build; tools/baseline_off.py; demo test with and without the patch"})
    json.dump(meta, open(meta_path, "w"), indent=1)
    print(json.dumps(res, indent=1))
    print("CONFIRMED" if ok else "NOT CONFIRMED", sid)
    return ok


def run(sid, props, checks=None):
    """Runs the checks against a scratch worktree of /repo HEAD with the patch
    applied (the driver's VERIF_REPO development switch), so /repo itself, the
    registered evidence and the replay directory are never touched. This is
    equivalent to `git -C /repo apply patch.diff; ./check P; git -C /repo
    checkout -- .` and can run while /repo is in use."""
    dst = os.path.join(SEEDED, sid)
    patch = os.path.join(dst, "patch.diff")
    # (pid in the names: a background run of the regression net and a manual
    # run of the same seed must not share a scratch worktree)
    wt = f"/tmp/verif-seed-{sid}-{os.getpid()}"
    outdir = f"/tmp/verif-seed-out-{sid}-{os.getpid()}"
    sh(["git", "-C", "/repo", "worktree", "remove", "--force", wt])
    shutil.rmtree(wt, ignore_errors=True)
    shutil.rmtree(outdir, ignore_errors=True)
    rc, out = sh(["git", "-C", "/repo", "worktree", "add", "--detach", wt, "HEAD"])
    assert rc == 0, out
    rc, out = sh(["git", "apply", patch], cwd=wt)
    if rc != 0:
        sh(["git", "-C", "/repo", "worktree", "remove", "--force", wt])
        print(sid, " ".join(props), "PATCH-DOES-NOT-APPLY to the current /repo HEAD:", out.strip().splitlines()[0] if out.strip() else "")
        return
    results = {}
    env = dict(ENV, VERIF_REPO=wt, VERIF_OUT=outdir)
    if MATRIX:
        env["VERIF_KEEP_BINARY"] = f"/tmp/verif-seed-bin-{sid}-{os.getpid()}.test"
    try:
        for p in props:
            cmd = [os.path.join(ROOT, "check"), p]
            if checks:
                cmd += ["--checks", str(checks)]
            t0 = time.time()
            pr = subprocess.run(cmd, cwd=ROOT, env=env, capture_output=True, text=True, timeout=3600)
            rc, out = pr.returncode, pr.stdout + pr.stderr
            clause = ""
            for line in out.splitlines():
                line = line.strip()
                if line.startswith("[") and "]" in line and not line.startswith("[rapid]"):
                    clause = line[:300]
                    break
            detected = rc == 1 and "VIOLATION property=" in out
            if rc == 1 and not detected:
                rc = 2
            results[p] = {"rc": rc, "detected": detected, "seconds": round(time.time() - t0, 1), "first_message": clause,
                          "cases": checks or "quick tier default"}
            print(sid, p, "DETECTED" if detected else ("inconclusive" if rc == 2 else "missed"), f"{time.time()-t0:.0f}s", clause[:200], flush=True)
    finally:
        sh(["git", "-C", "/repo", "worktree", "remove", "--force", wt])
        shutil.rmtree(wt, ignore_errors=True)
        # keep one found replay per detecting property next to the seed
        rp = os.path.join(outdir, "replays")
        if os.path.isdir(rp):
            keep = os.path.join(dst, "found")
            os.makedirs(keep, exist_ok=True)
            seen = set()
            for f in sorted(os.listdir(rp)):
                prop = f.split("-")[1]
                if prop not in seen:
                    seen.add(prop)
                    shutil.copy(os.path.join(rp, f), os.path.join(keep, f"{prop}.json"))
        shutil.rmtree(outdir, ignore_errors=True)
        try:
            os.remove(f"/tmp/verif-seed-bin-{sid}-{os.getpid()}.test")
        except OSError:
            pass
    meta_path = os.path.join(dst, "meta.json")
    meta = json.load(open(meta_path)) if os.path.exists(meta_path) else {"id": sid}
    old = meta.setdefault("checks", {})
    for p, r in results.items():
        # a reduced-budget matrix run never replaces a full-budget result
        if MATRIX and p in old and old[p].get("cases") in (None, "quick tier default"):
            continue
        old[p] = r
    meta["detected_by"] = sorted(p for p, r in meta["checks"].items() if r["detected"])
    meta["missed_by"] = sorted(p for p, r in meta["checks"].items() if not r["detected"])
    meta["ran"] = "scratch worktree of /repo HEAD + git apply patch.diff; VERIF_REPO=<worktree> ./check <P> (quick tier, VERIF_SEED=1; the target property at the full quick budget, the other properties with --checks 24000); worktree removed"
    json.dump(meta, open(meta_path, "w"), indent=1)


if __name__ == "__main__":
    if sys.argv[1] == "confirm":
        sys.exit(0 if confirm(sys.argv[2], sys.argv[3], sys.argv[4]) else 1)
    if sys.argv[1] == "run":
        sid = sys.argv[2]
        rest = sys.argv[3:]
        checks = None
        if "--checks" in rest:
            i = rest.index("--checks")
            checks = int(rest[i + 1])
            rest = rest[:i] + rest[i + 2:]
        if "--matrix" in rest:
            rest.remove("--matrix")
            globals()["MATRIX"] = True
        props = rest or ALL
        if props == ["all"]:
            props = ALL
        run(sid, props, checks)

#!/bin/bash
# soak: every check at several VERIF_SEED values; prints one line per run and every non-zero exit in full
# usage: tools/soak.sh <tier> <seed>...   (run from /verif or a snapshot of it)
tier=$1; shift
cd "$(dirname "$0")/.."
for s in "$@"; do
  for p in C01 C02 C03 C04 C05 C06 C07 C08 C09 C10 C11 C12 C13 C14 C15 C16 C17 C18 C19 C20; do
    out=$(VERIF_SEED=$s ./check $p --tier $tier 2>&1); rc=$?
    echo "seed=$s $p rc=$rc $(echo "$out" | grep -E "^$p \[" | tail -1)"
    if [ $rc -ne 0 ]; then echo "$out" | tail -60; fi
  done
done

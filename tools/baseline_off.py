#!/usr/bin/env python3
"""Run uber-go/dig's own test suite with the verif build tag OFF and compare
with /root/.vp/BASELINE.json: every test in stable_pass must pass."""
import json, os, subprocess, sys

REPO = sys.argv[1] if len(sys.argv) > 1 else "/repo"
env = dict(os.environ, GOFLAGS="-mod=mod", GOPROXY="off", GOSUMDB="off", GOTOOLCHAIN="local")
p = subprocess.run(["go", "test", "-json", "-vet=off", "-count=1", "-timeout", "25m", "./..."],
                   cwd=REPO, env=env, capture_output=True, text=True)
status = {}
for line in p.stdout.splitlines():
    try:
        ev = json.loads(line)
    except Exception:
        continue
    if ev.get("Test") and ev.get("Action") in ("pass", "fail", "skip"):
        status[f"{ev['Package']}::{ev['Test']}"] = ev["Action"]
base = json.load(open("/root/.vp/BASELINE.json"))
missing = [t for t in base["stable_pass"] if status.get(t) != "pass"]
passed = sum(1 for v in status.values() if v == "pass")
failed = sorted(t for t, v in status.items() if v == "fail")
print(f"baseline(off): passed={passed} failed={len(failed)} stable_expected={len(base['stable_pass'])} stable_not_passing={len(missing)}")
for t in failed:
    tag = "(known always_fail)" if t in base.get("always_fail", []) else ""
    print("  FAIL", t, tag)
for t in missing[:20]:
    print("  NOT-PASSING", t, status.get(t))
subprocess.run(["git", "-C", REPO, "checkout", "--", "go.sum", "go.mod"], capture_output=True)
sys.exit(1 if missing else 0)
